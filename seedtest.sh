#!/bin/bash
# seedtest.sh <patch> <prop> [tier]  : apply a seeded defect to /repo, run the check, revert. Prints DETECTED / MISSED.
patch="$1"; prop="$2"; tier="${3:-quick}"
cd /repo || exit 2
if ! git diff --quiet; then echo "repo dirty"; exit 2; fi
if ! git apply --3way "$patch" 2>/tmp/seedapply.err && ! git apply "$patch" 2>>/tmp/seedapply.err; then echo "APPLY-FAILED $patch"; cat /tmp/seedapply.err; git reset -q; git checkout HEAD -- . ; exit 3; fi
git reset -q
out=$(cd /verif && ./check "$prop" "$tier" 2>&1); rc=$?
git -C /repo checkout -- .
echo "$out" | grep -E "VIOLATION|KNOWN-FINDING|MACHINERY|^\[" | head -8
if [ $rc -eq 1 ]; then echo "DETECTED rc=1 $patch by $prop $tier"; elif [ $rc -eq 0 ]; then echo "MISSED rc=0 $patch by $prop $tier"; else echo "MACHINERY rc=$rc"; echo "$out" | tail -20; fi
