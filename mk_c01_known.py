#!/usr/bin/env python3
"""Developer tool (never run by a registered check): rebuilds the `open: property=C01` lines of KNOWN_FINDINGS.txt and
C01_CLASS_BOUNDS.json from a quick and a thorough run on the CURRENT tree.  Use only after every divergence it will list
has been examined (DESIGN.md §4 #20 lists the root causes); a divergence with a new site needs a new entry in EXPL."""
import json, re, subprocess, os, sys
V = "/verif"
EXPL = [
 (r"shl_limb", "the zero-shift mask of shl_limb (nz.if_true_word) is compiled to a branch on 'normalisation shift == 0', i.e. on whether the bit length of the secret divisor is a multiple of the limb size"),
 (r"boxed::inv_mod::inv_mod", "BoxedUint::inv_mod: splits the modulus into odd part and power of two with a secret-dependent trailing_zeros / shift path, then safegcd"),
 (r"safegcd.*(jump|divsteps)", "safegcd: jump()/divsteps() loop and branch on the low bits of f and g and the number of outer iterations depends on bits(f), bits(g); every operation built on it (inv_mod, inv_odd_mod, gcd, Montgomery inversion) inherits the secret-dependent trace"),
 (r"select_u64|UnsatInt|safegcd", "safegcd arithmetic (select / UnsatInt multiplication inside divsteps) reached with secret-dependent control flow from jump()/divsteps()"),
 (r"uint::div::div_rem|div_limb::div3by2|boxed::div::div_rem_unchecked|rem_limb_with_reciprocal|div::rem_wide_vartime", "Knuth division: mask-and-select steps of the quotient-digit estimate/correction are emitted as conditional jumps by the x86 back end (machine level), on top of the shl_limb normalisation branch"),
 (r"neg_mod|from_word_nonzero", "neg_mod: the 'self == 0' mask (is_nonzero().if_true_word in a loop) is compiled to an early-out branch on the secret operand being zero"),
 (r"bits::set_bit|to_u8", "bit / set_bit with a secret index: the limb scan with an equality mask is lowered to a single byte-granular load/store whose address is index/8"),
 (r"pow::compute_powers|bit_and::bitand|multi_exponentiate_montgomery_form_internal", "Montgomery pow: the final conditional subtraction of montgomery_reduction / the window-table scan select is emitted as a conditional jump inside the loop (x86 cmov-to-branch conversion), machine level only"),
 (r"primitives::mac|select_word", "select on a secret flag (ConstCtOption::unwrap_or after checked_square; quotient correction in boxed division) emitted as a conditional jump, machine level only"),
]
TAIL = "Left open: a repair needs an optimisation barrier inside ConstChoice (core::hint::black_box is not const at the crate's MSRV 1.85) or a redesign of safegcd/division"
kf = f"{V}/KNOWN_FINDINGS.txt"
lines = open(kf).read().splitlines()
keep = [l for l in lines if not l.startswith("open: property=C01")]
open(kf, "w").write("\n".join(keep) + "\n")
for f in os.listdir(f"{V}/replays"):
    if f.startswith("C01-"):
        os.remove(f"{V}/replays/{f}")
keys = {}
for tier in ("quick", "thorough"):
    r = subprocess.run([f"{V}/check_ct", tier, "--write-bounds"], capture_output=True, text=True, cwd=V)
    for l in r.stdout.splitlines():
        m = re.match(r"VIOLATION property=C01 replay=(\S+)", l)
        if m:
            d = json.load(open(m.group(1)))
            keys.setdefault(d["key"], d)
    sys.stderr.write(r.stderr.strip().splitlines()[-1] + "\n")
out = []
unknown = []
for k, d in sorted(keys.items()):
    if ":classes>" in k:
        continue
    e = d["example"]
    why = next((t for rx, t in EXPL if re.search(rx, d["site"])), None)
    if why is None:
        unknown.append(k)
        continue
    out.append(f"open: property=C01 key={k} :: {why}; e.g. width {e['n']} limbs, {e['ref_secrets']} vs {e['cur_secrets']}. {TAIL}")
open(kf, "a").write("\n".join(out) + "\n")
print(len(out), "keys written;", len(unknown), "with an unexplained site (NOT written):", unknown)
