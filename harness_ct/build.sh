#!/bin/bash
# build.sh <san|rel>   builds the C01 harness from /repo's current tree; prints the binary path
set -e
cd /verif/harness_ct
export CARGO_NET_OFFLINE=true
case "$1" in
san)
  RUSTFLAGS="-Cpasses=sancov-module -Cllvm-args=-sanitizer-coverage-level=3 -Cllvm-args=-sanitizer-coverage-trace-pc-guard -Cllvm-args=-sanitizer-coverage-pc-table -Cllvm-args=-sanitizer-coverage-trace-loads -Cllvm-args=-sanitizer-coverage-trace-stores -Cllvm-args=-sanitizer-coverage-trace-divs -Cllvm-args=-sanitizer-coverage-trace-geps -Ccodegen-units=1" \
  CARGO_TARGET_DIR=/verif/target/san cargo build --offline --release --bin vct --features san --target x86_64-unknown-linux-gnu >&2
  echo /verif/target/san/x86_64-unknown-linux-gnu/release/vct ;;
rel)
  RUSTFLAGS="-Crelocation-model=static" CARGO_TARGET_DIR=/verif/target/ct cargo build --offline --release --target x86_64-unknown-linux-gnu >&2
  echo /verif/target/ct/x86_64-unknown-linux-gnu/release/vct ;;
*) echo "usage: build.sh san|rel" >&2; exit 2 ;;
esac
