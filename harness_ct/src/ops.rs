//! The C01 operation table.  Every row is a monomorphic `#[inline(never)]` wrapper around ONE public operation.
//! `prep` (untraced) normalises the secret operands into the operation's documented domain and builds objects whose
//! construction is not the operation under test (boxed integers, NonZero/Odd wrappers, Montgomery parameters from
//! the PUBLIC modulus, Montgomery representations); `exec` (traced) performs the operation and writes the result
//! to the volatile sink.
#![allow(clippy::type_complexity)]
use crate::{IN, MAX, MAXL, Pub, Row, TOP, sink, sink_words};
use crypto_bigint::modular::{BoxedMontyForm, BoxedMontyParams, ConstMontyForm, MontyForm, MontyParams};
use crypto_bigint::subtle::{Choice, ConditionallySelectable, ConstantTimeEq, ConstantTimeGreater, ConstantTimeLess, CtOption};
use crypto_bigint::{
    BitOps, BoxedUint, CheckedAdd, CheckedMul, CheckedSub, ConstChoice, ConstCtOption, ConstantTimeSelect, Gcd, Int, Integer, Invert, Limb, NonZero, Odd, Reciprocal, U64, U128, U256,
    Uint, WrappingAdd, WrappingMul, WrappingNeg, WrappingSub, Zero, impl_modulus,
};

// ---------------------------------------------------------------------------------------------
// input access
pub struct Ins<const N: usize> {
    pub a: Uint<N>,
    pub b: Uint<N>,
    pub c: Uint<N>,
    pub p: Uint<N>,
    pub k: u32,
}
#[inline(always)]
fn rd<const N: usize>(s: &[u64; MAXL]) -> Uint<N> {
    let mut w = [0u64; N];
    w.copy_from_slice(&s[..N]);
    Uint::from_words(w)
}
#[inline(always)]
fn ins<const N: usize>() -> Ins<N> {
    unsafe { Ins { a: rd(&IN.a), b: rd(&IN.b), c: rd(&IN.c), p: rd(&IN.p), k: core::ptr::read_volatile(&IN.k) as u32 } }
}
fn wr<const N: usize>(dst: &mut [u64; MAXL], v: &Uint<N>) {
    dst[..N].copy_from_slice(v.as_words());
}

// sink helpers -------------------------------------------------------------------------------
#[inline(always)]
fn ou<const N: usize>(off: usize, v: &Uint<N>) {
    sink_words(off, v.as_words())
}
#[inline(always)]
fn oi<const N: usize>(off: usize, v: &Int<N>) {
    sink_words(off, v.as_uint().as_words())
}
#[inline(always)]
fn oc(off: usize, c: ConstChoice) {
    sink(off, bool::from(c) as u64)
}
#[inline(always)]
fn och(off: usize, c: Choice) {
    sink(off, c.unwrap_u8() as u64)
}
#[inline(always)]
fn oco<const N: usize>(off: usize, o: ConstCtOption<Uint<N>>) {
    oc(off + N, o.is_some());
    ou(off, &o.unwrap_or(Uint::ZERO));
}
#[inline(always)]
fn octo<const N: usize>(off: usize, o: CtOption<Uint<N>>) {
    och(off + N, o.is_some());
    ou(off, &o.unwrap_or(Uint::ZERO));
}
#[inline(always)]
fn ocoi<const N: usize>(off: usize, o: ConstCtOption<Int<N>>) {
    oc(off + N, o.is_some());
    oi(off, &o.unwrap_or(Int::ZERO));
}
#[inline(always)]
fn octoi<const N: usize>(off: usize, o: CtOption<Int<N>>) {
    och(off + N, o.is_some());
    oi(off, &o.unwrap_or(Int::ZERO));
}
#[inline(always)]
fn ob(off: usize, v: &BoxedUint) {
    sink_words(off, v.as_words())
}
#[inline(always)]
fn ocob(off: usize, o: CtOption<BoxedUint>, n: usize) {
    // CtOption<BoxedUint> offers no branch-free access to the value: only the flag is observed
    och(off + n, o.is_some());
}
#[inline(always)]
fn oord(off: usize, o: core::cmp::Ordering) {
    sink(off, o as i8 as u64)
}

// ---------------------------------------------------------------------------------------------
// prepared objects (built by `prep`, outside the traced region, inside the per-run arena)
pub struct Hold {
    pub ba: Option<BoxedUint>,
    pub bb: Option<BoxedUint>,
    pub bc: Option<BoxedUint>,
    pub bp: Option<BoxedUint>,
    pub bnz: Option<NonZero<BoxedUint>>,
    pub bodd: Option<Odd<BoxedUint>>,
    pub bparams: Option<BoxedMontyParams>,
    pub bma: Option<BoxedMontyForm>,
    pub bmb: Option<BoxedMontyForm>,
}
pub static mut H: Hold = Hold { ba: None, bb: None, bc: None, bp: None, bnz: None, bodd: None, bparams: None, bma: None, bmb: None };
pub static mut HP: Option<BoxedMontyParams> = None;
#[repr(C, align(64))]
pub struct Raw(pub [u8; 1 << 14]);
pub static mut MPARAMS: Raw = Raw([0; 1 << 14]);
pub static mut MA: Raw = Raw([0; 1 << 14]);
pub static mut MB: Raw = Raw([0; 1 << 14]);

fn hold_clear() {
    unsafe {
        // objects of the previous run live in the (already reset) arena: forget, never drop
        core::mem::forget(core::mem::replace(
            &mut H,
            Hold { ba: None, bb: None, bc: None, bp: None, bnz: None, bodd: None, bparams: None, bma: None, bmb: None },
        ));
    }
}
unsafe fn put<T>(slot: &mut Raw, v: T) {
    assert!(core::mem::size_of::<T>() <= slot.0.len());
    unsafe { core::ptr::write(slot.0.as_mut_ptr() as *mut T, v) }
}
#[inline(always)]
unsafe fn getr<T>(slot: &Raw) -> &T {
    unsafe { &*(slot.0.as_ptr() as *const T) }
}

// prep functions ------------------------------------------------------------------------------
fn p_none<const N: usize>() {}
/// b := b or 1 when b == 0   (divisor must be non-zero)
fn p_nz_b<const N: usize>() {
    unsafe {
        if IN.b[..N].iter().all(|&x| x == 0) {
            IN.b[0] = 1;
        }
    }
}
/// b := nonzero and not MIN-with-a==MIN … Int division: only nonzero needed (overflow MIN/-1 returns none)
fn p_odd_b<const N: usize>() {
    unsafe {
        IN.b[0] |= 1;
    }
}
/// c := modulus p (secret, non-zero); a, b reduced below p
fn p_mod_c<const N: usize>() {
    unsafe {
        if IN.c[..N].iter().all(|&x| x == 0) {
            IN.c[0] = 1;
        }
        let p = NonZero::new(rd::<N>(&IN.c)).unwrap();
        let a = rd::<N>(&IN.a).rem_vartime(&p);
        let b = rd::<N>(&IN.b).rem_vartime(&p);
        wr(&mut IN.a, &a);
        wr(&mut IN.b, &b);
    }
}
/// as p_mod_c with an odd modulus
fn p_oddmod_c<const N: usize>() {
    unsafe {
        IN.c[0] |= 1;
    }
    p_mod_c::<N>()
}
/// special modulus 2^BITS - c with c = low limb of IN.c forced non-zero; a, b reduced
fn p_special<const N: usize>() {
    unsafe {
        if IN.c[0] == 0 {
            IN.c[0] = 1;
        }
        let c = IN.c[0];
        let p = Uint::<N>::ZERO.wrapping_sub(&Uint::from_u64(c));
        if let Some(nz) = Option::<NonZero<Uint<N>>>::from(NonZero::new(p)) {
            let a = rd::<N>(&IN.a).rem_vartime(&nz);
            let b = rd::<N>(&IN.b).rem_vartime(&nz);
            wr(&mut IN.a, &a);
            wr(&mut IN.b, &b);
        }
    }
}
/// Montgomery: params from the PUBLIC modulus p; a, b secret residues converted to Montgomery form
fn p_monty<const N: usize>() {
    unsafe {
        if crate::pub_fresh() {
            let m = Odd::new(rd::<N>(&IN.p)).unwrap();
            put(&mut MPARAMS, MontyParams::new_vartime(m));
        }
        let params: MontyParams<N> = *getr(&MPARAMS);
        let a = MontyForm::new(&rd::<N>(&IN.a), params);
        let b = MontyForm::new(&rd::<N>(&IN.b), params);
        put(&mut MA, a);
        put(&mut MB, b);
    }
}
fn boxed<const N: usize>(s: &[u64; MAXL]) -> BoxedUint {
    BoxedUint::from_words(s[..N].iter().copied())
}
fn p_boxed<const N: usize>() {
    hold_clear();
    unsafe {
        H.ba = Some(boxed::<N>(&IN.a));
        H.bb = Some(boxed::<N>(&IN.b));
        H.bc = Some(boxed::<N>(&IN.c));
        H.bp = Some(boxed::<N>(&IN.p));
    }
}
/// receiver a at N limbs, right-hand side b at ONE limb (its low limb)
fn p_boxed_narrow_b<const N: usize>() {
    p_boxed::<N>();
    unsafe {
        H.bb = Some(BoxedUint::from_words([IN.b[0]]));
    }
}
fn p_boxed_nz_b<const N: usize>() {
    p_nz_b::<N>();
    p_boxed::<N>();
    unsafe {
        H.bnz = Some(NonZero::new(boxed::<N>(&IN.b)).unwrap());
    }
}
fn p_boxed_nz_p<const N: usize>() {
    p_boxed::<N>();
    unsafe {
        H.bnz = Some(NonZero::new(boxed::<N>(&IN.p)).unwrap());
    }
}
fn p_boxed_odd_b<const N: usize>() {
    p_odd_b::<N>();
    p_boxed::<N>();
    unsafe {
        H.bodd = Some(Odd::new(boxed::<N>(&IN.b)).unwrap());
    }
}
fn p_boxed_mod_c<const N: usize>() {
    p_mod_c::<N>();
    p_boxed::<N>();
    unsafe {
        H.bnz = Some(NonZero::new(boxed::<N>(&IN.c)).unwrap());
    }
}
fn p_boxed_oddmod_c<const N: usize>() {
    p_oddmod_c::<N>();
    p_boxed::<N>();
    unsafe {
        H.bnz = Some(NonZero::new(boxed::<N>(&IN.c)).unwrap());
    }
}
fn p_boxed_special<const N: usize>() {
    p_special::<N>();
    p_boxed::<N>();
}
fn p_bmonty<const N: usize>() {
    p_boxed::<N>();
    unsafe {
        if crate::pub_fresh() {
            crate::arena_leave();
            let m = Odd::new(boxed::<N>(&IN.p)).unwrap();
            core::mem::forget(HP.replace(BoxedMontyParams::new_vartime(m)));
            crate::arena_enter();
        }
        let params = HP.as_ref().unwrap();
        H.bma = Some(BoxedMontyForm::new(boxed::<N>(&IN.a), params.clone()));
        H.bmb = Some(BoxedMontyForm::new(boxed::<N>(&IN.b), params.clone()));
        H.bparams = Some(params.clone());
    }
}

// public parameter lists ----------------------------------------------------------------------
fn no_pub(_n: usize) -> Vec<Pub> {
    vec![Pub { name: "-".into(), p: vec![], k: 0 }]
}
fn no_k(_n: usize) -> Vec<u64> {
    vec![]
}
fn shifts(n: usize) -> Vec<u64> {
    let b = 64 * n as u64;
    let mut v = vec![0, 1, 63, 64, 65, b / 2, b - 1];
    v.retain(|&x| x < b);
    v.sort();
    v.dedup();
    v
}
fn shifts_over(n: usize) -> Vec<u64> {
    let b = 64 * n as u64;
    let mut v = shifts(n);
    v.extend([b, b + 1, u32::MAX as u64]);
    v
}
fn pub_shifts(n: usize) -> Vec<Pub> {
    shifts(n).into_iter().map(|k| Pub { name: format!("shift={k}"), p: vec![], k }).collect()
}
fn pub_bits(n: usize) -> Vec<Pub> {
    let b = 64 * n as u64;
    let mut v = vec![1, 5, 64, b];
    v.sort();
    v.dedup();
    v.into_iter().map(|k| Pub { name: format!("bits={k}"), p: vec![], k }).collect()
}
fn pub_k(n: usize) -> Vec<Pub> {
    let b = 64 * n as u64;
    let mut v = vec![0, 1, 63, 64, 65, b - 1, b];
    v.retain(|&x| x <= b);
    v.sort();
    v.dedup();
    v.into_iter().map(|k| Pub { name: format!("k={k}"), p: vec![], k }).collect()
}
fn odd_moduli(n: usize) -> Vec<Pub> {
    let g = 0x9E37_79B9_7F4A_7C15u64;
    let mut top = vec![0u64; n];
    top[0] = 1;
    top[n - 1] |= TOP;
    let mut small = vec![0u64; n];
    small[0] = 0x65;
    let gn: Vec<u64> = (0..n).map(|i| g.rotate_left(11 * i as u32) | 1).collect();
    vec![
        Pub { name: "m=MAX".into(), p: vec![MAX; n], k: 0 },
        Pub { name: "m=2^(B-1)+1".into(), p: top, k: 0 },
        Pub { name: "m=0x65".into(), p: small, k: 0 },
        Pub { name: "m=generic".into(), p: gn, k: 0 },
    ]
}
fn odd_moduli_bits(n: usize) -> Vec<Pub> {
    let mut v = Vec::new();
    for m in odd_moduli(n).into_iter().take(2) {
        for b in pub_bits(n) {
            v.push(Pub { name: format!("{} {}", m.name, b.name), p: m.p.clone(), k: b.k });
        }
    }
    v
}
fn divisors(n: usize) -> Vec<Pub> {
    let g = 0xD1B5_4A32_D192_ED03u64;
    let mut v = vec![Pub { name: "d=1".into(), p: { let mut x = vec![0; n]; x[0] = 1; x }, k: 0 }, Pub { name: "d=3".into(), p: { let mut x = vec![0; n]; x[0] = 3; x }, k: 0 }, Pub { name: "d=MAX".into(), p: vec![MAX; n], k: 0 }];
    if n >= 2 {
        let mut x = vec![0; n];
        x[1] = 1;
        v.push(Pub { name: "d=2^64".into(), p: x, k: 0 });
    }
    v.push(Pub { name: "d=generic".into(), p: (0..n).map(|i| g.rotate_left(9 * i as u32) | 1).collect(), k: 0 });
    if n >= 3 {
        // divisors for which a structured dividend (B^(n-1), runs of MAX) makes Knuth's quotient estimate overshoot:
        // the add-back correction must be as invisible as every other step
        let mut x = vec![0; n];
        x[0] = MAX;
        x[n - 2] = TOP;
        v.push(Pub { name: "d=2^(64(n-1)-1)+2^64-1 (add-back)".into(), p: x, k: 0 });
        let mut y = vec![0; n];
        y[0] = MAX;
        y[n - 1] = TOP;
        v.push(Pub { name: "d=2^(64n-1)+2^64-1 (add-back)".into(), p: y, k: 0 });
    }
    v
}

impl_modulus!(M256, U256, "ffffffff00000001000000000000000000000000ffffffffffffffffffffffff");
impl_modulus!(M128, U128, "ffffffffffffffffffffffffffffff61");
impl_modulus!(M64, U64, "ffffffffffffffc5");

macro_rules! row {
    ($rows:ident; $name:expr; n=[$($w:tt),*]; s=$ns:expr; ks=$ks:expr; pubs=$pubs:expr; heavy=$h:expr; vt=$vt:expr; prep=$prep:ident; |$x:ident| $body:block) => {
        $( {
            #[allow(dead_code, unused_variables, non_snake_case)]
            #[inline(never)]
            fn e() {
                type U = Uint<$w>;
                type I = Int<$w>;
                const N: usize = $w;
                let $x = ins::<$w>();
                $body
            }
            $rows.push(Row { name: $name, n: $w, nsecret: $ns, secret_k: ($ks)($w), publics: ($pubs)($w), prep: $prep::<$w>, exec: e, heavy: $h, vartime: $vt });
        } )*
    };
}
// shorthand: plain constant-time Uint row at all widths
macro_rules! ct {
    ($rows:ident; $name:expr; s=$ns:expr; |$x:ident| $body:block) => {
        row!($rows; $name; n=[1,2,4,8,16]; s=$ns; ks=no_k; pubs=no_pub; heavy=false; vt=false; prep=p_none; |$x| $body);
    };
    ($rows:ident; $name:expr; s=$ns:expr; prep=$prep:ident; |$x:ident| $body:block) => {
        row!($rows; $name; n=[1,2,4,8,16]; s=$ns; ks=no_k; pubs=no_pub; heavy=false; vt=false; prep=$prep; |$x| $body);
    };
}
macro_rules! bx {
    ($rows:ident; $name:expr; s=$ns:expr; prep=$prep:ident; |$x:ident| $body:block) => {
        row!($rows; $name; n=[1,2,4,8,16]; s=$ns; ks=no_k; pubs=no_pub; heavy=false; vt=false; prep=$prep; |$x| $body);
    };
}
macro_rules! h {
    ($f:ident) => {
        unsafe { H.$f.as_ref().unwrap_unchecked() }
    };
}

pub fn table(thorough: bool) -> Vec<Row> {
    let mut r: Vec<Row> = Vec::new();

    // ------------------------------------------------------------------ Limb
    row!(r; "Limb::adc"; n=[1]; s=3; ks=no_k; pubs=no_pub; heavy=false; vt=false; prep=p_none; |x| {
        let (s, c) = Limb(x.a.as_words()[0]).adc(Limb(x.b.as_words()[0]), Limb(x.c.as_words()[0] & 1)); sink(0, s.0); sink(1, c.0);
    });
    row!(r; "Limb::sbb"; n=[1]; s=3; ks=no_k; pubs=no_pub; heavy=false; vt=false; prep=p_none; |x| {
        let (s, c) = Limb(x.a.as_words()[0]).sbb(Limb(x.b.as_words()[0]), Limb(0u64.wrapping_sub(x.c.as_words()[0] & 1))); sink(0, s.0); sink(1, c.0);
    });
    row!(r; "Limb::mac"; n=[1]; s=3; ks=no_k; pubs=no_pub; heavy=false; vt=false; prep=p_none; |x| {
        let (s, c) = Limb(x.a.as_words()[0]).mac(Limb(x.b.as_words()[0]), Limb(x.c.as_words()[0]), Limb(x.b.as_words()[0])); sink(0, s.0); sink(1, c.0);
    });
    macro_rules! limb2 { ($name:expr, |$a:ident, $b:ident| $e:expr) => {
        row!(r; $name; n=[1]; s=2; ks=no_k; pubs=no_pub; heavy=false; vt=false; prep=p_none; |x| {
            let $a = Limb(x.a.as_words()[0]); let $b = Limb(x.b.as_words()[0]); let v: Limb = $e; sink(0, v.0);
        });
    }; }
    limb2!("Limb::wrapping_add", |a, b| a.wrapping_add(b));
    limb2!("Limb::wrapping_sub", |a, b| a.wrapping_sub(b));
    limb2!("Limb::wrapping_mul", |a, b| a.wrapping_mul(b));
    limb2!("Limb::saturating_add", |a, b| a.saturating_add(b));
    limb2!("Limb::saturating_sub", |a, b| a.saturating_sub(b));
    limb2!("Limb::saturating_mul", |a, b| a.saturating_mul(b));
    limb2!("Limb::bitand", |a, b| a.bitand(b));
    limb2!("Limb::bitor", |a, b| a.bitor(b));
    limb2!("Limb::bitxor", |a, b| a.bitxor(b));
    limb2!("Limb::not", |a, _b| a.not());
    limb2!("Limb::wrapping_neg", |a, _b| a.wrapping_neg());
    limb2!("Limb::bits", |a, _b| Limb(a.bits() as u64));
    limb2!("Limb::leading_zeros", |a, _b| Limb(a.leading_zeros() as u64));
    limb2!("Limb::trailing_zeros", |a, _b| Limb(a.trailing_zeros() as u64));
    limb2!("Limb::trailing_ones", |a, _b| Limb(a.trailing_ones() as u64));
    limb2!("Limb:CheckedAdd", |a, b| CheckedAdd::checked_add(&a, &b).unwrap_or(Limb::ZERO));
    limb2!("Limb:CheckedSub", |a, b| CheckedSub::checked_sub(&a, &b).unwrap_or(Limb::ZERO));
    limb2!("Limb:CheckedMul", |a, b| CheckedMul::checked_mul(&a, &b).unwrap_or(Limb::ZERO));
    limb2!("Limb:ct_eq", |a, b| Limb(a.ct_eq(&b).unwrap_u8() as u64));
    limb2!("Limb:ct_lt", |a, b| Limb(a.ct_lt(&b).unwrap_u8() as u64));
    limb2!("Limb:ct_gt", |a, b| Limb(a.ct_gt(&b).unwrap_u8() as u64));
    limb2!("Limb:Ord::cmp", |a, b| Limb(Ord::cmp(&a, &b) as i8 as u64));
    limb2!("Limb:PartialEq::eq", |a, b| Limb((a == b) as u64));
    limb2!("Limb:PartialOrd::lt/ge", |a, b| Limb((a < b) as u64 | ((a >= b) as u64) << 1));
    limb2!("Limb::is_odd", |a, _b| Limb(a.is_odd().unwrap_u8() as u64));
    limb2!("Limb:Zero::is_zero", |a, _b| Limb(Zero::is_zero(&a).unwrap_u8() as u64));
    limb2!("Limb::conditional_select", |a, b| Limb::conditional_select(&a, &b, Choice::from((a.0 & 1) as u8)));
    row!(r; "Limb::shl (public shift)"; n=[1]; s=1; ks=no_k; pubs=(|_n| vec![0u64, 1, 63].into_iter().map(|k| Pub{name: format!("shift={k}"), p: vec![], k}).collect::<Vec<_>>()); heavy=false; vt=false; prep=p_none; |x| {
        sink(0, Limb(x.a.as_words()[0]).shl(x.k).0); sink(1, Limb(x.a.as_words()[0]).shr(x.k).0);
    });

    // ------------------------------------------------------------------ Uint: add/sub/neg/mul
    ct!(r; "Uint::adc"; s=3; |x| { let (s, c) = x.a.adc(&x.b, Limb(x.c.as_words()[0] & 1)); ou(0, &s); sink(N, c.0); });
    ct!(r; "Uint::sbb"; s=3; |x| { let (s, c) = x.a.sbb(&x.b, Limb(0u64.wrapping_sub(x.c.as_words()[0] & 1))); ou(0, &s); sink(N, c.0); });
    ct!(r; "Uint::wrapping_add"; s=2; |x| { ou(0, &x.a.wrapping_add(&x.b)); });
    ct!(r; "Uint::wrapping_sub"; s=2; |x| { ou(0, &x.a.wrapping_sub(&x.b)); });
    ct!(r; "Uint::saturating_add"; s=2; |x| { ou(0, &x.a.saturating_add(&x.b)); });
    ct!(r; "Uint::saturating_sub"; s=2; |x| { ou(0, &x.a.saturating_sub(&x.b)); });
    ct!(r; "Uint:CheckedAdd"; s=2; |x| { octo(0, CheckedAdd::checked_add(&x.a, &x.b)); });
    ct!(r; "Uint:CheckedSub"; s=2; |x| { octo(0, CheckedSub::checked_sub(&x.a, &x.b)); });
    ct!(r; "Uint:CheckedMul"; s=2; |x| { octo(0, CheckedMul::checked_mul(&x.a, &x.b)); });
    ct!(r; "Uint:WrappingAdd"; s=2; |x| { ou(0, &WrappingAdd::wrapping_add(&x.a, &x.b)); });
    ct!(r; "Uint:WrappingSub"; s=2; |x| { ou(0, &WrappingSub::wrapping_sub(&x.a, &x.b)); });
    ct!(r; "Uint:WrappingMul"; s=2; |x| { ou(0, &WrappingMul::wrapping_mul(&x.a, &x.b)); });
    ct!(r; "Uint:WrappingNeg"; s=1; |x| { ou(0, &WrappingNeg::wrapping_neg(&x.a)); });
    ct!(r; "Uint::wrapping_neg"; s=1; |x| { ou(0, &x.a.wrapping_neg()); });
    ct!(r; "Uint::carrying_neg"; s=1; |x| { let (v, c) = x.a.carrying_neg(); ou(0, &v); oc(N, c); });
    ct!(r; "Uint::wrapping_neg_if"; s=2; |x| { ou(0, &x.a.wrapping_neg_if(x.b.is_odd().into())); });
    row!(r; "Uint::split_mul"; n=[1,2,4,8,16,32,64]; s=2; ks=no_k; pubs=no_pub; heavy=false; vt=false; prep=p_none; |x| { let (lo, hi) = x.a.split_mul(&x.b); ou(0, &lo); ou(N, &hi); });
    ct!(r; "Uint::wrapping_mul"; s=2; |x| { ou(0, &x.a.wrapping_mul(&x.b)); });
    ct!(r; "Uint::saturating_mul"; s=2; |x| { ou(0, &x.a.saturating_mul(&x.b)); });
    row!(r; "Uint::square_wide"; n=[1,2,4,8,16,32,64]; s=1; ks=no_k; pubs=no_pub; heavy=false; vt=false; prep=p_none; |x| { let (lo, hi) = x.a.square_wide(); ou(0, &lo); ou(N, &hi); });
    ct!(r; "Uint::wrapping_square"; s=1; |x| { ou(0, &x.a.wrapping_square()); });
    ct!(r; "Uint::checked_square"; s=1; |x| { oco(0, x.a.checked_square()); });
    ct!(r; "Uint::saturating_square"; s=1; |x| { ou(0, &x.a.saturating_square()); });
    ct!(r; "Uint*Uint"; s=2; |x| { ou(0, &x.a.wrapping_mul(&x.b)); });

    // ------------------------------------------------------------------ Uint: bitwise, bits
    ct!(r; "Uint::bitand"; s=2; |x| { ou(0, &x.a.bitand(&x.b)); });
    ct!(r; "Uint::bitor"; s=2; |x| { ou(0, &x.a.bitor(&x.b)); });
    ct!(r; "Uint::bitxor"; s=2; |x| { ou(0, &x.a.bitxor(&x.b)); });
    ct!(r; "Uint::not"; s=1; |x| { ou(0, &x.a.not()); });
    ct!(r; "Uint::bitand_limb"; s=2; |x| { ou(0, &x.a.bitand_limb(Limb(x.b.as_words()[0]))); });
    ct!(r; "Uint::bits"; s=1; |x| { sink(0, x.a.bits() as u64); });
    ct!(r; "Uint::leading_zeros"; s=1; |x| { sink(0, x.a.leading_zeros() as u64); });
    ct!(r; "Uint::trailing_zeros"; s=1; |x| { sink(0, x.a.trailing_zeros() as u64); });
    ct!(r; "Uint::trailing_ones"; s=1; |x| { sink(0, x.a.trailing_ones() as u64); });
    row!(r; "Uint::bit (secret index)"; n=[1,2,4,8,16]; s=1; ks=shifts_over; pubs=no_pub; heavy=false; vt=false; prep=p_none; |x| { oc(0, x.a.bit(x.k)); });
    row!(r; "Uint:BitOps::set_bit (secret index)"; n=[1,2,4,8,16]; s=1; ks=shifts; pubs=no_pub; heavy=false; vt=false; prep=p_none; |x| {
        let mut v = x.a; BitOps::set_bit(&mut v, x.k, Choice::from((x.a.as_words()[0] & 1) as u8)); ou(0, &v);
    });
    row!(r; "Uint::bit_vartime (public index)"; n=[1,2,4]; s=1; ks=no_k; pubs=pub_shifts; heavy=false; vt=true; prep=p_none; |x| { sink(0, x.a.bit_vartime(x.k) as u64); });

    // ------------------------------------------------------------------ Uint: shifts
    row!(r; "Uint::shl (secret shift)"; n=[1,2,4,8,16]; s=1; ks=shifts; pubs=no_pub; heavy=false; vt=false; prep=p_none; |x| { ou(0, &x.a.shl(x.k)); });
    row!(r; "Uint::shr (secret shift)"; n=[1,2,4,8,16]; s=1; ks=shifts; pubs=no_pub; heavy=false; vt=false; prep=p_none; |x| { ou(0, &x.a.shr(x.k)); });
    row!(r; "Uint::overflowing_shl (secret shift)"; n=[1,2,4,8,16]; s=1; ks=shifts_over; pubs=no_pub; heavy=false; vt=false; prep=p_none; |x| { oco(0, x.a.overflowing_shl(x.k)); });
    row!(r; "Uint::overflowing_shr (secret shift)"; n=[1,2,4,8,16]; s=1; ks=shifts_over; pubs=no_pub; heavy=false; vt=false; prep=p_none; |x| { oco(0, x.a.overflowing_shr(x.k)); });
    row!(r; "Uint::wrapping_shl (secret shift)"; n=[1,2,4,8,16]; s=1; ks=shifts_over; pubs=no_pub; heavy=false; vt=false; prep=p_none; |x| { ou(0, &x.a.wrapping_shl(x.k)); });
    row!(r; "Uint::wrapping_shr (secret shift)"; n=[1,2,4,8,16]; s=1; ks=shifts_over; pubs=no_pub; heavy=false; vt=false; prep=p_none; |x| { ou(0, &x.a.wrapping_shr(x.k)); });
    row!(r; "Uint<<u32 (secret shift)"; n=[1,2,4]; s=1; ks=shifts; pubs=no_pub; heavy=false; vt=false; prep=p_none; |x| { ou(0, &(x.a << x.k)); ou(N, &(x.a >> x.k)); });
    row!(r; "Uint::overflowing_shr_vartime (public shift)"; n=[1,2,4,8,16]; s=1; ks=no_k; pubs=pub_shifts; heavy=false; vt=true; prep=p_none; |x| { oco(0, x.a.overflowing_shr_vartime(x.k)); });
    row!(r; "Int::overflowing_shl_vartime (public shift)"; n=[1,2,4]; s=1; ks=no_k; pubs=pub_shifts; heavy=false; vt=true; prep=p_none; |x| { ocoi(0, x.a.as_int().overflowing_shl_vartime(x.k)); });
    row!(r; "Uint::overflowing_shl_vartime (public shift)"; n=[1,2,4,8,16]; s=1; ks=no_k; pubs=pub_shifts; heavy=false; vt=true; prep=p_none; |x| { oco(0, x.a.overflowing_shl_vartime(x.k)); });

    // ------------------------------------------------------------------ Uint: comparison / selection / wrappers
    ct!(r; "Uint:ct_eq"; s=2; |x| { och(0, x.a.ct_eq(&x.b)); });
    ct!(r; "Uint:ct_lt"; s=2; |x| { och(0, x.a.ct_lt(&x.b)); });
    ct!(r; "Uint:ct_gt"; s=2; |x| { och(0, x.a.ct_gt(&x.b)); });
    ct!(r; "Uint:Ord::cmp"; s=2; |x| { oord(0, Ord::cmp(&x.a, &x.b)); });
    ct!(r; "Uint:PartialEq::eq"; s=2; |x| { sink(0, (x.a == x.b) as u64); });
    ct!(r; "Uint:PartialOrd::lt"; s=2; |x| { sink(0, (x.a < x.b) as u64); });
    ct!(r; "Uint:PartialOrd::le/gt/ge/partial_cmp"; s=2; |x| { sink(0, (x.a <= x.b) as u64); sink(1, (x.a > x.b) as u64); sink(2, (x.a >= x.b) as u64); sink(3, PartialOrd::partial_cmp(&x.a, &x.b).map(|o| o as i8 as u64).unwrap_or(9)); });
    ct!(r; "Uint:Integer::is_odd"; s=1; |x| { och(0, Integer::is_odd(&x.a)); });
    ct!(r; "Uint:Zero::is_zero"; s=1; |x| { och(0, Zero::is_zero(&x.a)); });
    ct!(r; "Uint::conditional_select"; s=3; |x| { ou(0, &U::conditional_select(&x.a, &x.b, Choice::from((x.c.as_words()[0] & 1) as u8))); });
    ct!(r; "Uint::conditional_swap"; s=3; |x| { let (mut a, mut b) = (x.a, x.b); U::conditional_swap(&mut a, &mut b, Choice::from((x.c.as_words()[0] & 1) as u8)); ou(0, &a); ou(N, &b); });
    ct!(r; "NonZero::new(Uint)"; s=1; |x| { let o = NonZero::new(x.a); och(N, o.is_some()); });
    ct!(r; "Odd::new(Uint)"; s=1; |x| { let o = Odd::new(x.a); och(N, o.is_some()); });
    ct!(r; "Uint::to_nz"; s=1; |x| { let o = x.a.to_nz(); oc(N, o.is_some()); });
    ct!(r; "Uint::to_odd"; s=1; |x| { let o = x.a.to_odd(); oc(N, o.is_some()); });
    ct!(r; "ConstCtOption<Uint>::unwrap_or"; s=2; |x| { ou(0, &x.a.checked_square().unwrap_or(x.b)); });

    // ------------------------------------------------------------------ Checked<Uint>: a failed earlier step must not change what later steps execute
    ct!(r; "Checked<Uint>*Checked*Checked (by value)"; s=3; |x| {
        let p = crypto_bigint::Checked::new(x.a) * crypto_bigint::Checked::new(x.b) * crypto_bigint::Checked::new(x.c);
        och(N, p.0.is_some()); ou(0, &p.0.unwrap_or(U::ZERO));
    });
    ct!(r; "Checked<Uint>+Checked-Checked (by value)"; s=3; |x| {
        let p = crypto_bigint::Checked::new(x.a) + crypto_bigint::Checked::new(x.b) - crypto_bigint::Checked::new(x.c);
        och(N, p.0.is_some()); ou(0, &p.0.unwrap_or(U::ZERO));
    });
    ct!(r; "&Checked<Uint>*&Checked, *=, += (by reference / assigning)"; s=3; |x| {
        let mut p = &crypto_bigint::Checked::new(x.a) * &crypto_bigint::Checked::new(x.b);
        p *= crypto_bigint::Checked::new(x.c);
        p += &crypto_bigint::Checked::new(x.a);
        och(N, p.0.is_some()); ou(0, &p.0.unwrap_or(U::ZERO));
    });
    // ------------------------------------------------------------------ Uint: division
    ct!(r; "Uint::div_rem"; s=2; prep=p_nz_b; |x| { let (q, rm) = x.a.div_rem(&NonZero::new(x.b).unwrap()); ou(0, &q); ou(N, &rm); });
    ct!(r; "Uint::rem"; s=2; prep=p_nz_b; |x| { ou(0, &x.a.rem(&NonZero::new(x.b).unwrap())); });
    ct!(r; "Uint::checked_div"; s=2; |x| { octo(0, x.a.checked_div(&x.b)); });
    ct!(r; "Uint::checked_rem"; s=2; |x| { octo(0, x.a.checked_rem(&x.b)); });
    ct!(r; "Uint::wrapping_div"; s=2; prep=p_nz_b; |x| { ou(0, &x.a.wrapping_div(&NonZero::new(x.b).unwrap())); });
    ct!(r; "Uint/NonZero<Uint>"; s=2; prep=p_nz_b; |x| { let d = NonZero::new(x.b).unwrap(); ou(0, &(x.a / d)); ou(N, &(x.a % d)); });
    ct!(r; "Uint::div_rem_limb"; s=2; prep=p_nz_b; |x| { let (q, rm) = x.a.div_rem_limb(NonZero::new(Limb(x.b.as_words()[0] | 1)).unwrap()); ou(0, &q); sink(N, rm.0); });
    ct!(r; "Uint::rem_limb"; s=2; prep=p_nz_b; |x| { let rm = x.a.rem_limb(NonZero::new(Limb(x.b.as_words()[0] | 1)).unwrap()); sink(0, rm.0); });
    row!(r; "Uint::div_rem_vartime (public divisor)"; n=[1,2,4,8,16]; s=1; ks=no_k; pubs=divisors; heavy=false; vt=true; prep=p_none; |x| { let (q, rm) = x.a.div_rem_vartime(&NonZero::new(x.p).unwrap()); ou(0, &q); ou(N, &rm); });
    row!(r; "Uint::rem_vartime (public divisor)"; n=[1,2,4,8,16]; s=1; ks=no_k; pubs=divisors; heavy=false; vt=true; prep=p_none; |x| { ou(0, &x.a.rem_vartime(&NonZero::new(x.p).unwrap())); });
    row!(r; "Uint::rem_wide_vartime (public divisor)"; n=[1,2,4]; s=2; ks=no_k; pubs=divisors; heavy=false; vt=true; prep=p_none; |x| { ou(0, &U::rem_wide_vartime((x.a, x.b), &NonZero::new(x.p).unwrap())); });

    // ------------------------------------------------------------------ Uint: modular (modulus is an ordinary operand = secret)
    ct!(r; "Uint::add_mod"; s=3; prep=p_mod_c; |x| { ou(0, &x.a.add_mod(&x.b, &x.c)); });
    ct!(r; "Uint::sub_mod"; s=3; prep=p_mod_c; |x| { ou(0, &x.a.sub_mod(&x.b, &x.c)); });
    ct!(r; "Uint::neg_mod"; s=3; prep=p_mod_c; |x| { ou(0, &x.a.neg_mod(&x.c)); });
    ct!(r; "Uint::double_mod"; s=3; prep=p_mod_c; |x| { ou(0, &x.a.double_mod(&x.c)); });
    ct!(r; "Uint::add_mod_special"; s=3; prep=p_special; |x| { ou(0, &x.a.add_mod_special(&x.b, Limb(x.c.as_words()[0]))); });
    ct!(r; "Uint::sub_mod_special"; s=3; prep=p_special; |x| { ou(0, &x.a.sub_mod_special(&x.b, Limb(x.c.as_words()[0]))); });
    ct!(r; "Uint::neg_mod_special"; s=3; prep=p_special; |x| { ou(0, &x.a.neg_mod_special(Limb(x.c.as_words()[0]))); });
    ct!(r; "Uint::mul_mod_special"; s=3; prep=p_special; |x| { ou(0, &x.a.mul_mod_special(&x.b, Limb(x.c.as_words()[0]))); });
    row!(r; "Uint::mul_mod"; n=[1,2,4,8]; s=3; ks=no_k; pubs=no_pub; heavy=false; vt=false; prep=p_oddmod_c; |x| { ou(0, &x.a.mul_mod(&x.b, &NonZero::new(x.c).unwrap())); });
    row!(r; "Uint::mul_mod_vartime (public modulus)"; n=[1,2,4]; s=2; ks=no_k; pubs=divisors; heavy=false; vt=true; prep=p_none; |x| { ou(0, &x.a.mul_mod_vartime(&x.b, &NonZero::new(x.p).unwrap())); });

    // ------------------------------------------------------------------ Uint: inversion, gcd, sqrt
    row!(r; "Uint::inv_mod2k (secret k)"; n=[1,2,4,8]; s=1; ks=(|n: usize| { let mut v = shifts(n); v.push(64 * n as u64); v }); pubs=no_pub; heavy=true; vt=false; prep=p_none; |x| { oco(0, x.a.inv_mod2k(x.k)); });
    row!(r; "Uint::inv_mod2k_vartime (public k)"; n=[1,2,4]; s=1; ks=no_k; pubs=pub_k; heavy=true; vt=true; prep=p_none; |x| { oco(0, x.a.inv_mod2k_vartime(x.k)); });
    row!(r; "Uint::inv_odd_mod"; n=[1,2,4,8]; s=2; ks=no_k; pubs=no_pub; heavy=true; vt=false; prep=p_odd_b; |x| { oco(0, x.a.inv_odd_mod(&Odd::new(x.b).unwrap())); });
    row!(r; "Uint::inv_mod"; n=[1,2,4,8]; s=2; ks=no_k; pubs=no_pub; heavy=true; vt=false; prep=p_nz_b; |x| { oco(0, x.a.inv_mod(&x.b)); });
    row!(r; "Uint::gcd"; n=[1,2,4,8]; s=2; ks=no_k; pubs=no_pub; heavy=true; vt=false; prep=p_none; |x| { ou(0, &x.a.gcd(&x.b)); });
    row!(r; "Uint:Gcd::gcd"; n=[1,2,4]; s=2; ks=no_k; pubs=no_pub; heavy=true; vt=false; prep=p_none; |x| { ou(0, &Gcd::gcd(&x.a, &x.b)); });
    row!(r; "Uint::sqrt"; n=[1,2,4,8]; s=1; ks=no_k; pubs=no_pub; heavy=true; vt=false; prep=p_none; |x| { ou(0, &x.a.sqrt()); });
    row!(r; "Uint::checked_sqrt"; n=[1,2,4]; s=1; ks=no_k; pubs=no_pub; heavy=true; vt=false; prep=p_none; |x| { octo(0, x.a.checked_sqrt()); });
    row!(r; "Uint::wrapping_sqrt"; n=[1,2,4]; s=1; ks=no_k; pubs=no_pub; heavy=true; vt=false; prep=p_none; |x| { ou(0, &x.a.wrapping_sqrt()); });

    // ------------------------------------------------------------------ Uint: encoding
    row!(r; "Uint::to_be_bytes/from_be_slice"; n=[1,2,4,8]; s=1; ks=no_k; pubs=no_pub; heavy=false; vt=false; prep=p_none; |x| {
        let mut buf = [0u8; 8 * N];
        for (i, w) in x.a.as_words().iter().enumerate() { buf[8 * i..8 * i + 8].copy_from_slice(&w.to_le_bytes()); }
        let v = U::from_le_slice(&buf); ou(0, &v);
        let w = U::from_be_slice(&buf); ou(N, &w);
    });

    // ------------------------------------------------------------------ Int
    macro_rules! int_ct { ($name:expr, s=$ns:expr, $prep:ident, |$a:ident, $b:ident, $x:ident| $body:block) => {
        row!(r; $name; n=[1,2,4,8]; s=$ns; ks=no_k; pubs=no_pub; heavy=false; vt=false; prep=$prep; |$x| { let $a: I = $x.a.as_int(); let $b: I = $x.b.as_int(); $body });
    }; }
    int_ct!("Int::wrapping_add", s=2, p_none, |a, b, x| { oi(0, &a.wrapping_add(&b)); });
    int_ct!("Int::wrapping_sub", s=2, p_none, |a, b, x| { oi(0, &a.wrapping_sub(&b)); });
    int_ct!("Int::checked_add", s=2, p_none, |a, b, x| { ocoi(0, a.checked_add(&b)); });
    int_ct!("Int:CheckedSub", s=2, p_none, |a, b, x| { octoi(0, CheckedSub::checked_sub(&a, &b)); });
    int_ct!("Int:CheckedMul", s=2, p_none, |a, b, x| { octoi(0, CheckedMul::checked_mul(&a, &b)); });
    int_ct!("Int::overflowing_add", s=2, p_none, |a, b, x| { let (v, c) = a.overflowing_add(&b); oi(0, &v); oc(N, c); });
    int_ct!("Int::split_mul", s=2, p_none, |a, b, x| { let (lo, hi, s) = a.split_mul(&b); ou(0, &lo); ou(N, &hi); oc(2 * N, s); });
    int_ct!("Int::wrapping_neg", s=1, p_none, |a, b, x| { oi(0, &a.wrapping_neg()); });
    int_ct!("Int::checked_neg", s=1, p_none, |a, b, x| { ocoi(0, a.checked_neg()); });
    int_ct!("Int::abs_sign", s=1, p_none, |a, b, x| { let (m, s) = a.abs_sign(); ou(0, &m); oc(N, s); });
    int_ct!("Int::is_negative", s=1, p_none, |a, b, x| { oc(0, a.is_negative()); oc(1, a.is_positive()); });
    int_ct!("Int::new_from_abs_sign", s=2, p_none, |a, b, x| { ocoi(0, I::new_from_abs_sign(x.a, x.b.is_odd().into())); });
    int_ct!("Int:ct_eq/ct_lt/ct_gt", s=2, p_none, |a, b, x| { och(0, a.ct_eq(&b)); och(1, a.ct_lt(&b)); och(2, a.ct_gt(&b)); });
    int_ct!("Int:Ord::cmp", s=2, p_none, |a, b, x| { oord(0, Ord::cmp(&a, &b)); });
    int_ct!("Int:PartialOrd::lt/le/gt/ge", s=2, p_none, |a, b, x| { sink(0, (a < b) as u64); sink(1, (a <= b) as u64); sink(2, (a > b) as u64); sink(3, (a >= b) as u64); });
    int_ct!("Int:PartialOrd::partial_cmp", s=2, p_none, |a, b, x| { sink(0, PartialOrd::partial_cmp(&a, &b).map(|o| o as i8 as u64).unwrap_or(9)); });
    int_ct!("Int:PartialEq::eq", s=2, p_none, |a, b, x| { sink(0, (a == b) as u64); });
    int_ct!("Int::conditional_select", s=2, p_none, |a, b, x| { oi(0, &I::conditional_select(&a, &b, Choice::from((x.a.as_words()[0] & 1) as u8))); });
    int_ct!("Int::checked_div_rem", s=2, p_nz_b, |a, b, x| { let (q, rm) = a.checked_div_rem(&NonZero::new(b).unwrap()); ocoi(0, q); oi(2 * N, &rm); });
    int_ct!("Int::checked_div", s=2, p_none, |a, b, x| { octoi(0, a.checked_div(&b)); });
    int_ct!("Int::rem", s=2, p_nz_b, |a, b, x| { oi(0, &a.rem(&NonZero::new(b).unwrap())); });
    int_ct!("Int::checked_div_rem_floor", s=2, p_nz_b, |a, b, x| { let (q, rm) = a.checked_div_rem_floor(&NonZero::new(b).unwrap()); ocoi(0, q); oi(2 * N, &rm); });
    int_ct!("Int::checked_div_floor", s=2, p_none, |a, b, x| { octoi(0, a.checked_div_floor(&b)); });
    int_ct!("Int::div_rem_uint", s=2, p_nz_b, |a, b, x| { let (q, rm) = a.div_rem_uint(&NonZero::new(x.b).unwrap()); oi(0, &q); oi(N, &rm); });
    int_ct!("Int::div_rem_floor_uint", s=2, p_nz_b, |a, b, x| { let (q, rm) = a.div_rem_floor_uint(&NonZero::new(x.b).unwrap()); oi(0, &q); ou(N, &rm); });
    int_ct!("Int::normalized_rem", s=2, p_nz_b, |a, b, x| { ou(0, &a.normalized_rem(&NonZero::new(x.b).unwrap())); });
    row!(r; "Int::shl (secret shift)"; n=[1,2,4]; s=1; ks=shifts; pubs=no_pub; heavy=false; vt=false; prep=p_none; |x| { oi(0, &x.a.as_int().shl(x.k)); });
    row!(r; "Int::shr (secret shift)"; n=[1,2,4]; s=1; ks=shifts; pubs=no_pub; heavy=false; vt=false; prep=p_none; |x| { oi(0, &x.a.as_int().shr(x.k)); });
    row!(r; "Int::overflowing_shr (secret shift)"; n=[1,2,4]; s=1; ks=shifts_over; pubs=no_pub; heavy=false; vt=false; prep=p_none; |x| { ocoi(0, x.a.as_int().overflowing_shr(x.k)); });
    row!(r; "Int::wrapping_shl (secret shift)"; n=[1,2,4]; s=1; ks=shifts_over; pubs=no_pub; heavy=false; vt=false; prep=p_none; |x| { oi(0, &x.a.as_int().wrapping_shl(x.k)); });
    row!(r; "Int::checked_div_rem_vartime (public divisor)"; n=[1,2,4]; s=1; ks=no_k; pubs=divisors; heavy=false; vt=true; prep=p_none; |x| {
        let (q, rm) = x.a.as_int().checked_div_rem_vartime(&NonZero::new(x.p.as_int()).unwrap()); ocoi(0, q); oi(2 * N, &rm);
    });
    row!(r; "Int::inv_odd_mod"; n=[1,2,4]; s=2; ks=no_k; pubs=no_pub; heavy=true; vt=false; prep=p_odd_b; |x| { octo(0, x.a.as_int().inv_odd_mod(&Odd::new(x.b).unwrap())); });
    row!(r; "Int:Gcd::gcd"; n=[1,2,4]; s=2; ks=no_k; pubs=no_pub; heavy=true; vt=false; prep=p_none; |x| { ou(0, &Gcd::gcd(&x.a.as_int(), &x.b.as_int())); });

    // ------------------------------------------------------------------ second batch (API accounting)
    ct!(r; "Uint::checked_and/or/xor"; s=2; |x| { octo(0, x.a.checked_and(&x.b)); octo(N + 1, x.a.checked_or(&x.b)); octo(2 * N + 2, x.a.checked_xor(&x.b)); });
    ct!(r; "Uint::wrapping_and/or/xor"; s=2; |x| { ou(0, &x.a.wrapping_and(&x.b)); ou(N, &x.a.wrapping_or(&x.b)); ou(2 * N, &x.a.wrapping_xor(&x.b)); });
    ct!(r; "Reciprocal::new + div_rem_limb_with_reciprocal"; s=2; |x| {
        let rc = Reciprocal::new(NonZero::new(Limb(x.b.as_words()[0] | 1)).unwrap());
        let (q, rm) = x.a.div_rem_limb_with_reciprocal(&rc); ou(0, &q); sink(N, rm.0); sink(N + 1, x.a.rem_limb_with_reciprocal(&rc).0);
    });
    ct!(r; "Uint:num_traits::One::is_one"; s=1; |x| { sink(0, num_traits::One::is_one(&x.a) as u64); });
    int_ct!("Int::abs", s=1, p_none, |a, b, x| { ou(0, &a.abs()); });
    int_ct!("Int::overflowing_neg", s=1, p_none, |a, b, x| { let (v, c) = a.overflowing_neg(); oi(0, &v); oc(N, c); });
    int_ct!("Int::is_min/is_max", s=1, p_none, |a, b, x| { oc(0, a.is_min()); oc(1, a.is_max()); });
    int_ct!("Int::div_uint/rem_uint", s=2, p_nz_b, |a, b, x| { let d = NonZero::new(x.b).unwrap(); oi(0, &a.div_uint(&d)); oi(N, &a.rem_uint(&d)); });
    int_ct!("Int::div_floor_uint", s=2, p_nz_b, |a, b, x| { oi(0, &a.div_floor_uint(&NonZero::new(x.b).unwrap())); });
    int_ct!("Int::split_mul_uint", s=2, p_none, |a, b, x| { let (lo, hi, sg) = a.split_mul_uint(&x.b); ou(0, &lo); ou(N, &hi); oc(2 * N, sg); });
    int_ct!("Int::split_mul_uint_right", s=2, p_none, |a, b, x| { let (lo, hi, sg) = a.split_mul_uint_right(&x.b); ou(0, &lo); ou(N, &hi); oc(2 * N, sg); });
    int_ct!("Int::checked_mul_uint_right", s=2, p_none, |a, b, x| { octoi(0, a.checked_mul_uint_right(&x.b)); });
    int_ct!("Int::wrapping_neg_if/bitops", s=2, p_none, |a, b, x| { oi(0, &(a & b)); oi(N, &(a | b)); oi(2 * N, &(a ^ b)); oi(3 * N, &!a); });

    // ------------------------------------------------------------------ MontyForm (modulus public)
    macro_rules! monty { ($name:expr, $heavy:expr, [$($w:tt),*], |$a:ident, $b:ident, $x:ident| $body:block) => {
        row!(r; $name; n=[$($w),*]; s=(if $name.contains("inv") { 1 } else { 2 }); ks=no_k; pubs=odd_moduli; heavy=$heavy; vt=false; prep=p_monty; |$x| {
            let $a: &MontyForm<N> = unsafe { getr(&MA) }; let $b: &MontyForm<N> = unsafe { getr(&MB) }; $body
        });
    }; }
    monty!("MontyForm::new", false, [1,2,4,8,16], |a, b, x| { let p: &MontyParams<N> = unsafe { getr(&MPARAMS) }; let v = MontyForm::new(&x.a, *p); ou(0, v.as_montgomery()); });
    monty!("MontyForm::retrieve", false, [1,2,4,8,16], |a, b, x| { ou(0, &a.retrieve()); });
    monty!("MontyForm::add", false, [1,2,4,8,16], |a, b, x| { ou(0, a.add(b).as_montgomery()); });
    monty!("MontyForm::sub", false, [1,2,4,8,16], |a, b, x| { ou(0, a.sub(b).as_montgomery()); });
    monty!("MontyForm::neg", false, [1,2,4,8,16], |a, b, x| { ou(0, a.neg().as_montgomery()); });
    monty!("MontyForm::double", false, [1,2,4,8,16], |a, b, x| { ou(0, a.double().as_montgomery()); });
    monty!("MontyForm::div_by_2", false, [1,2,4,8,16], |a, b, x| { ou(0, a.div_by_2().as_montgomery()); });
    monty!("MontyForm::mul", false, [1,2,4,8,16], |a, b, x| { ou(0, a.mul(b).as_montgomery()); });
    monty!("MontyForm::square", false, [1,2,4,8,16], |a, b, x| { ou(0, a.square().as_montgomery()); });
    monty!("MontyForm*MontyForm", false, [1,2,4], |a, b, x| { ou(0, (a * b).as_montgomery()); ou(N, (a + b).as_montgomery()); ou(2 * N, (a - b).as_montgomery()); ou(3 * N, (-a).as_montgomery()); });
    monty!("MontyForm::pow", true, [1,2,4,8], |a, b, x| { ou(0, a.pow(&x.b).as_montgomery()); });
    monty!("MontyForm::inv", true, [1,2,4,8], |a, b, x| { let o = a.inv(); oc(N, o.is_some()); });
    monty!("MontyForm:Invert::invert", true, [1,2,4], |a, b, x| { let o = Invert::invert(a); och(N, o.is_some()); });
    monty!("MontyForm:ct_eq", false, [1,2,4], |a, b, x| { och(0, a.ct_eq(b)); });
    monty!("MontyForm::conditional_select", false, [1,2,4], |a, b, x| {
        // the selected PARAMETERS are observed as well (otherwise their selection is dead code and any leak in it is optimised away)
        let r = MontyForm::conditional_select(a, b, Choice::from((x.a.as_words()[0] & 1) as u8)); ou(0, r.as_montgomery()); ou(N, r.params().modulus().as_ref());
    });
    monty!("MontyForm::conditional_assign/swap", false, [1,2,4], |a, b, x| {
        let c = Choice::from((x.a.as_words()[0] & 1) as u8);
        let (mut s1, mut s2) = (*a, *b); s1.conditional_assign(b, c); MontyForm::conditional_swap(&mut s1, &mut s2, c);
        ou(0, s1.as_montgomery()); ou(N, s1.params().modulus().as_ref()); ou(2 * N, s2.as_montgomery()); ou(3 * N, s2.params().modulus().as_ref());
    });
    row!(r; "MontyForm::pow_bounded_exp (public bits)"; n=[1,2,4,8]; s=2; ks=no_k; pubs=odd_moduli_bits; heavy=true; vt=false; prep=p_monty; |x| {
        let a: &MontyForm<N> = unsafe { getr(&MA) }; ou(0, a.pow_bounded_exp(&x.b, x.k).as_montgomery());
    });

    // ------------------------------------------------------------------ ConstMontyForm (compile-time modulus)
    macro_rules! cmonty { ($name:expr, $heavy:expr, $w:tt, $m:ident, |$a:ident, $b:ident, $x:ident| $body:block) => {
        row!(r; $name; n=[$w]; s=(if $name.contains("inv") { 1 } else { 2 }); ks=no_k; pubs=no_pub; heavy=$heavy; vt=false; prep=p_none; |$x| {
            type F = ConstMontyForm<$m, $w>;
            let $a = F::from_montgomery($x.a); let $b = F::from_montgomery($x.b); $body
        });
    }; }
    macro_rules! cmonty_all { ($w:tt, $m:ident) => {
        cmonty!("ConstMontyForm::new", false, $w, $m, |a, b, x| { ou(0, F::new(&x.a).as_montgomery()); });
        cmonty!("ConstMontyForm::retrieve", false, $w, $m, |a, b, x| { ou(0, &a.retrieve()); });
        cmonty!("ConstMontyForm::add", false, $w, $m, |a, b, x| { ou(0, a.add(&b).as_montgomery()); });
        cmonty!("ConstMontyForm::sub", false, $w, $m, |a, b, x| { ou(0, a.sub(&b).as_montgomery()); });
        cmonty!("ConstMontyForm::neg", false, $w, $m, |a, b, x| { ou(0, a.neg().as_montgomery()); });
        cmonty!("ConstMontyForm::mul", false, $w, $m, |a, b, x| { ou(0, a.mul(&b).as_montgomery()); });
        cmonty!("ConstMontyForm::square", false, $w, $m, |a, b, x| { ou(0, a.square().as_montgomery()); });
        cmonty!("ConstMontyForm::div_by_2", false, $w, $m, |a, b, x| { ou(0, a.div_by_2().as_montgomery()); });
        cmonty!("ConstMontyForm::pow", true, $w, $m, |a, b, x| { ou(0, a.pow(&x.b).as_montgomery()); });
        cmonty!("ConstMontyForm::inv", true, $w, $m, |a, b, x| { let o = a.inv(); oc(N, o.is_some()); });
    }; }
    cmonty_all!(1, M64);
    cmonty_all!(2, M128);
    cmonty_all!(4, M256);

    // ------------------------------------------------------------------ BoxedUint
    bx!(r; "Boxed::adc"; s=3; prep=p_boxed; |x| { let (s, c) = h!(ba).adc(h!(bb), Limb(x.c.as_words()[0] & 1)); ob(0, &s); sink(N, c.0); });
    bx!(r; "Boxed::sbb"; s=3; prep=p_boxed; |x| { let (s, c) = h!(ba).sbb(h!(bb), Limb(0u64.wrapping_sub(x.c.as_words()[0] & 1))); ob(0, &s); sink(N, c.0); });
    bx!(r; "Boxed::wrapping_add"; s=2; prep=p_boxed; |x| { ob(0, &h!(ba).wrapping_add(h!(bb))); });
    bx!(r; "Boxed::wrapping_sub"; s=2; prep=p_boxed; |x| { ob(0, &h!(ba).wrapping_sub(h!(bb))); });
    bx!(r; "Boxed:CheckedAdd"; s=2; prep=p_boxed; |x| { ocob(0, CheckedAdd::checked_add(h!(ba), h!(bb)), N); });
    bx!(r; "Boxed:CheckedSub"; s=2; prep=p_boxed; |x| { ocob(0, CheckedSub::checked_sub(h!(ba), h!(bb)), N); });
    bx!(r; "Boxed::wrapping_neg"; s=1; prep=p_boxed; |x| { ob(0, &h!(ba).wrapping_neg()); });
    row!(r; "Boxed::mul"; n=[1,2,4,8,16,32,64]; s=2; ks=no_k; pubs=no_pub; heavy=false; vt=false; prep=p_boxed; |x| { ob(0, &h!(ba).mul(h!(bb))); });
    row!(r; "Boxed::wrapping_mul"; n=[1,2,4,8,16,32]; s=2; ks=no_k; pubs=no_pub; heavy=false; vt=false; prep=p_boxed; |x| { ob(0, &h!(ba).wrapping_mul(h!(bb))); });
    row!(r; "Boxed::square"; n=[1,2,4,8,16,32,64]; s=1; ks=no_k; pubs=no_pub; heavy=false; vt=false; prep=p_boxed; |x| { ob(0, &h!(ba).square()); });
    bx!(r; "Boxed::bitand/or/xor/not"; s=2; prep=p_boxed; |x| { ob(0, &h!(ba).bitand(h!(bb))); ob(N, &h!(ba).bitor(h!(bb))); ob(2 * N, &h!(ba).bitxor(h!(bb))); ob(3 * N, &h!(ba).not()); });
    bx!(r; "Boxed::bits"; s=1; prep=p_boxed; |x| { sink(0, h!(ba).bits() as u64); });
    bx!(r; "Boxed::leading_zeros"; s=1; prep=p_boxed; |x| { sink(0, h!(ba).leading_zeros() as u64); });
    bx!(r; "Boxed::trailing_zeros"; s=1; prep=p_boxed; |x| { sink(0, h!(ba).trailing_zeros() as u64); });
    bx!(r; "Boxed::trailing_ones"; s=1; prep=p_boxed; |x| { sink(0, h!(ba).trailing_ones() as u64); });
    bx!(r; "Boxed:ct_eq"; s=2; prep=p_boxed; |x| { och(0, h!(ba).ct_eq(h!(bb))); });
    bx!(r; "Boxed:ct_lt"; s=2; prep=p_boxed; |x| { och(0, h!(ba).ct_lt(h!(bb))); });
    bx!(r; "Boxed:ct_gt"; s=2; prep=p_boxed; |x| { och(0, h!(ba).ct_gt(h!(bb))); });
    bx!(r; "Boxed:Ord::cmp"; s=2; prep=p_boxed; |x| { oord(0, Ord::cmp(h!(ba), h!(bb))); });
    bx!(r; "Boxed:PartialEq::eq"; s=2; prep=p_boxed; |x| { sink(0, (h!(ba) == h!(bb)) as u64); });
    bx!(r; "Boxed::is_zero"; s=1; prep=p_boxed; |x| { och(0, h!(ba).is_zero()); och(1, h!(ba).is_odd()); });
    bx!(r; "Boxed::ct_select"; s=3; prep=p_boxed; |x| { ob(0, &<BoxedUint as ConstantTimeSelect>::ct_select(h!(ba), h!(bb), Choice::from((x.c.as_words()[0] & 1) as u8))); });
    bx!(r; "Boxed::conditional_swap"; s=3; prep=p_boxed; |x| {
        let (a, b) = unsafe { (H.ba.as_mut().unwrap_unchecked(), H.bb.as_mut().unwrap_unchecked()) };
        <BoxedUint as ConstantTimeSelect>::ct_swap(a, b, Choice::from((x.c.as_words()[0] & 1) as u8)); ob(0, a); ob(N, b);
    });
    row!(r; "Boxed::shl (secret shift)"; n=[1,2,4,8,16]; s=1; ks=shifts; pubs=no_pub; heavy=false; vt=false; prep=p_boxed; |x| { ob(0, &h!(ba).shl(x.k)); });
    row!(r; "Boxed::shr (secret shift)"; n=[1,2,4,8,16]; s=1; ks=shifts; pubs=no_pub; heavy=false; vt=false; prep=p_boxed; |x| { ob(0, &h!(ba).shr(x.k)); });
    row!(r; "Boxed::overflowing_shl (secret shift)"; n=[1,2,4,8]; s=1; ks=shifts_over; pubs=no_pub; heavy=false; vt=false; prep=p_boxed; |x| { let (v, c) = h!(ba).overflowing_shl(x.k); ob(0, &v); och(N, c); });
    row!(r; "Boxed::overflowing_shr (secret shift)"; n=[1,2,4,8]; s=1; ks=shifts_over; pubs=no_pub; heavy=false; vt=false; prep=p_boxed; |x| { let (v, c) = h!(ba).overflowing_shr(x.k); ob(0, &v); och(N, c); });
    row!(r; "Boxed::shl_vartime (public shift)"; n=[1,2,4,8]; s=1; ks=no_k; pubs=pub_shifts; heavy=false; vt=true; prep=p_boxed; |x| { let o = h!(ba).shl_vartime(x.k); ob(0, o.as_ref().unwrap()); });
    row!(r; "Boxed::shr_vartime (public shift)"; n=[1,2,4,8]; s=1; ks=no_k; pubs=pub_shifts; heavy=false; vt=true; prep=p_boxed; |x| { let o = h!(ba).shr_vartime(x.k); ob(0, o.as_ref().unwrap()); });
    row!(r; "Boxed:BitOps::bit (secret index)"; n=[1,2,4,8]; s=1; ks=shifts_over; pubs=no_pub; heavy=false; vt=false; prep=p_boxed; |x| { och(0, BitOps::bit(h!(ba), x.k)); });
    row!(r; "Boxed:BitOps::set_bit (secret index)"; n=[1,2,4,8]; s=1; ks=shifts; pubs=no_pub; heavy=false; vt=false; prep=p_boxed; |x| {
        let a = unsafe { H.ba.as_mut().unwrap_unchecked() }; BitOps::set_bit(a, x.k, Choice::from(1)); ob(0, a);
    });
    bx!(r; "Boxed::adc_assign"; s=3; prep=p_boxed; |x| { let a = unsafe { H.ba.as_mut().unwrap_unchecked() }; let c = a.adc_assign(h!(bb), Limb(x.c.as_words()[0] & 1)); ob(0, a); sink(N, c.0); });
    bx!(r; "Boxed::sbb_assign"; s=3; prep=p_boxed; |x| { let a = unsafe { H.ba.as_mut().unwrap_unchecked() }; let c = a.sbb_assign(h!(bb), Limb(0u64.wrapping_sub(x.c.as_words()[0] & 1))); ob(0, a); sink(N, c.0); });
    bx!(r; "Boxed::add_mod_assign"; s=3; prep=p_boxed_mod_c; |x| { let a = unsafe { H.ba.as_mut().unwrap_unchecked() }; a.add_mod_assign(h!(bb), h!(bc)); ob(0, a); });
    bx!(r; "Boxed::is_one"; s=1; prep=p_boxed; |x| { och(0, h!(ba).is_one()); });
    bx!(r; "Boxed::conditional_wrapping_neg"; s=2; prep=p_boxed; |x| { let v = <BoxedUint as subtle::ConditionallyNegatable>::conditional_negate; let a = unsafe { H.ba.as_mut().unwrap_unchecked() }; v(a, Choice::from((x.b.as_words()[0] & 1) as u8)); ob(0, a); });
    // mixed precision: a one-limb right-hand side added into / subtracted from a wider receiver (carry must ripple in constant time)
    row!(r; "Boxed::adc_assign (1-limb rhs)"; n=[2,4,8]; s=2; ks=no_k; pubs=no_pub; heavy=false; vt=false; prep=p_boxed_narrow_b; |x| {
        let a = unsafe { H.ba.as_mut().unwrap_unchecked() }; let c = a.adc_assign(h!(bb), Limb::ZERO); ob(0, a); sink(N, c.0);
    });
    row!(r; "Boxed::sbb_assign (1-limb rhs)"; n=[2,4,8]; s=2; ks=no_k; pubs=no_pub; heavy=false; vt=false; prep=p_boxed_narrow_b; |x| {
        let a = unsafe { H.ba.as_mut().unwrap_unchecked() }; let c = a.sbb_assign(h!(bb), Limb::ZERO); ob(0, a); sink(N, c.0);
    });
    row!(r; "Boxed:ct_eq/PartialEq (1-limb rhs)"; n=[2,4,8]; s=2; ks=no_k; pubs=no_pub; heavy=false; vt=false; prep=p_boxed_narrow_b; |x| {
        och(0, h!(ba).ct_eq(h!(bb))); och(1, h!(bb).ct_eq(h!(ba))); sink(2, (h!(ba) == h!(bb)) as u64);
    });
    row!(r; "Boxed:ct_lt/ct_gt/Ord (1-limb rhs)"; n=[2,4,8]; s=2; ks=no_k; pubs=no_pub; heavy=false; vt=false; prep=p_boxed_narrow_b; |x| {
        och(0, h!(ba).ct_lt(h!(bb))); och(1, h!(ba).ct_gt(h!(bb))); oord(2, Ord::cmp(h!(ba), h!(bb)));
    });
    row!(r; "Wrapping<Boxed>+=Boxed (1-limb rhs)"; n=[2,4,8]; s=2; ks=no_k; pubs=no_pub; heavy=false; vt=false; prep=p_boxed_narrow_b; |x| {
        let mut w = crypto_bigint::Wrapping(h!(ba).clone()); w += crypto_bigint::Wrapping(h!(bb).clone()); ob(0, &w.0);
    });
    bx!(r; "Boxed::div_rem"; s=2; prep=p_boxed_nz_b; |x| { let (q, rm) = h!(ba).div_rem(h!(bnz)); ob(0, &q); ob(N, &rm); });
    bx!(r; "Boxed::rem"; s=2; prep=p_boxed_nz_b; |x| { ob(0, &h!(ba).rem(h!(bnz))); });
    bx!(r; "Boxed::checked_div"; s=2; prep=p_boxed; |x| { ocob(0, h!(ba).checked_div(h!(bb)), N); });
    bx!(r; "Boxed::wrapping_div"; s=2; prep=p_boxed_nz_b; |x| { ob(0, &h!(ba).wrapping_div(h!(bnz))); });
    bx!(r; "Boxed::div_rem_limb"; s=2; prep=p_boxed; |x| { let (q, rm) = h!(ba).div_rem_limb(NonZero::new(Limb(x.b.as_words()[0] | 1)).unwrap()); ob(0, &q); sink(N, rm.0); });
    bx!(r; "Boxed::rem_limb"; s=2; prep=p_boxed; |x| { sink(0, h!(ba).rem_limb(NonZero::new(Limb(x.b.as_words()[0] | 1)).unwrap()).0); });
    row!(r; "Boxed::div_rem_vartime (public divisor)"; n=[1,2,4,8]; s=1; ks=no_k; pubs=divisors; heavy=false; vt=true; prep=p_boxed_nz_p; |x| { let (q, rm) = h!(ba).div_rem_vartime(h!(bnz)); ob(0, &q); ob(N, &rm); });
    row!(r; "Boxed::rem_vartime (public divisor)"; n=[1,2,4,8]; s=1; ks=no_k; pubs=divisors; heavy=false; vt=true; prep=p_boxed_nz_p; |x| { ob(0, &h!(ba).rem_vartime(h!(bnz))); });
    bx!(r; "Boxed::add_mod"; s=3; prep=p_boxed_mod_c; |x| { ob(0, &h!(ba).add_mod(h!(bb), h!(bc))); });
    bx!(r; "Boxed::sub_mod"; s=3; prep=p_boxed_mod_c; |x| { ob(0, &h!(ba).sub_mod(h!(bb), h!(bc))); });
    bx!(r; "Boxed::neg_mod"; s=3; prep=p_boxed_mod_c; |x| { ob(0, &h!(ba).neg_mod(h!(bc))); });
    bx!(r; "Boxed::double_mod"; s=3; prep=p_boxed_mod_c; |x| { ob(0, &h!(ba).double_mod(h!(bc))); });
    row!(r; "Boxed::mul_mod"; n=[1,2,4,8]; s=3; ks=no_k; pubs=no_pub; heavy=true; vt=false; prep=p_boxed_oddmod_c; |x| { ob(0, &h!(ba).mul_mod(h!(bb), h!(bnz))); });
    bx!(r; "Boxed::sub_mod_special"; s=3; prep=p_boxed_special; |x| { ob(0, &h!(ba).sub_mod_special(h!(bb), Limb(x.c.as_words()[0]))); });
    bx!(r; "Boxed::mul_mod_special"; s=3; prep=p_boxed_special; |x| { ob(0, &h!(ba).mul_mod_special(h!(bb), Limb(x.c.as_words()[0]))); });
    row!(r; "Boxed::inv_mod2k (secret k)"; n=[1,2,4]; s=1; ks=(|n: usize| { let mut v = shifts(n); v.push(64 * n as u64); v }); pubs=no_pub; heavy=true; vt=false; prep=p_boxed; |x| { let (v, c) = h!(ba).inv_mod2k(x.k); ob(0, &v); och(N, c); });
    row!(r; "Boxed::inv_odd_mod"; n=[1,2,4]; s=2; ks=no_k; pubs=no_pub; heavy=true; vt=false; prep=p_boxed_odd_b; |x| { ocob(0, h!(ba).inv_odd_mod(h!(bodd)), N); });
    row!(r; "Boxed::inv_mod"; n=[1,2,4]; s=2; ks=no_k; pubs=no_pub; heavy=true; vt=false; prep=p_boxed_nz_b; |x| { ocob(0, h!(ba).inv_mod(h!(bb)), N); });
    row!(r; "Boxed:Gcd::gcd"; n=[1,2,4]; s=2; ks=no_k; pubs=no_pub; heavy=true; vt=false; prep=p_boxed; |x| { ob(0, &Gcd::gcd(h!(ba), h!(bb))); });
    row!(r; "Boxed::sqrt"; n=[1,2,4]; s=1; ks=no_k; pubs=no_pub; heavy=true; vt=false; prep=p_boxed; |x| { ob(0, &h!(ba).sqrt()); });
    row!(r; "Boxed::to_be_bytes/from_be_slice"; n=[1,2,4]; s=1; ks=no_k; pubs=no_pub; heavy=false; vt=false; prep=p_boxed; |x| {
        let b = h!(ba).to_be_bytes(); let v = BoxedUint::from_be_slice(&b, 64 * N as u32).unwrap(); ob(0, &v);
        let l = h!(ba).to_le_bytes(); let v = BoxedUint::from_le_slice(&l, 64 * N as u32).unwrap(); ob(N, &v);
    });

    // ------------------------------------------------------------------ BoxedMontyForm (modulus public)
    macro_rules! bmonty { ($name:expr, $heavy:expr, [$($w:tt),*], |$a:ident, $b:ident, $x:ident| $body:block) => {
        row!(r; $name; n=[$($w),*]; s=(if $name.contains("inv") { 1 } else { 2 }); ks=no_k; pubs=odd_moduli; heavy=$heavy; vt=false; prep=p_bmonty; |$x| { let $a = h!(bma); let $b = h!(bmb); $body });
    }; }
    bmonty!("BoxedMontyForm::new", false, [1,2,4,8], |a, b, x| { let v = BoxedMontyForm::new(h!(ba).clone(), h!(bparams).clone()); ob(0, v.as_montgomery()); });
    bmonty!("BoxedMontyForm::retrieve", false, [1,2,4,8], |a, b, x| { ob(0, &a.retrieve()); });
    bmonty!("BoxedMontyForm::add", false, [1,2,4,8], |a, b, x| { ob(0, a.add(b).as_montgomery()); });
    bmonty!("BoxedMontyForm::sub", false, [1,2,4,8], |a, b, x| { ob(0, a.sub(b).as_montgomery()); });
    bmonty!("BoxedMontyForm::neg", false, [1,2,4,8], |a, b, x| { ob(0, a.neg().as_montgomery()); });
    bmonty!("BoxedMontyForm::double", false, [1,2,4,8], |a, b, x| { ob(0, a.double().as_montgomery()); });
    bmonty!("BoxedMontyForm::div_by_2", false, [1,2,4,8], |a, b, x| { ob(0, a.div_by_2().as_montgomery()); });
    bmonty!("BoxedMontyForm::mul", false, [1,2,4,8], |a, b, x| { ob(0, a.mul(b).as_montgomery()); });
    bmonty!("BoxedMontyForm::square", false, [1,2,4,8], |a, b, x| { ob(0, a.square().as_montgomery()); });
    bmonty!("BoxedMontyForm::pow", true, [1,2,4], |a, b, x| { ob(0, a.pow(h!(bb)).as_montgomery()); });
    bmonty!("BoxedMontyForm::invert", true, [1,2,4], |a, b, x| { let o = a.invert(); och(N, o.is_some()); });
    bmonty!("BoxedMontyForm::is_zero", false, [1,2,4], |a, b, x| { och(0, a.is_zero()); och(1, a.is_nonzero()); });
    row!(r; "BoxedMontyForm::pow_bounded_exp (public bits)"; n=[1,2,4]; s=2; ks=no_k; pubs=odd_moduli_bits; heavy=true; vt=false; prep=p_bmonty; |x| { ob(0, h!(bma).pow_bounded_exp(h!(bb), x.k).as_montgomery()); });

    // 32 (and 64 in the thorough tier) only exist for the multiplication rows: the Karatsuba thresholds
    let widths: &[usize] = if thorough { &[1, 2, 4, 8, 16, 32, 64] } else { &[1, 2, 4, 32] };
    r.retain(|row| widths.contains(&row.n));
    r
}
