//! lktrace <begin-marker-addr> <end-marker-addr> <plan-file>
//! Reads `valgrind --tool=lackey --trace-mem=yes` output on stdin, cuts it at the marker stores of the C01 driver and
//! compares, per (row, public assignment) group of the plan, the machine-level traces (instruction addresses and
//! sizes, load/store/modify addresses and sizes) of all runs.  Same trace-trie logic as layer A.
use std::io::{BufRead, Write};

struct PlanRun {
    ri: usize,
    row: String,
    n: usize,
    pi: usize,
    pubname: String,
    secrets: String,
}

fn hexval(b: &[u8]) -> (u64, usize) {
    let mut v = 0u64;
    let mut i = 0;
    while i < b.len() {
        let c = b[i];
        let d = match c {
            b'0'..=b'9' => c - b'0',
            b'a'..=b'f' => c - b'a' + 10,
            b'A'..=b'F' => c - b'A' + 10,
            _ => break,
        };
        v = (v << 4) | d as u64;
        i += 1;
    }
    (v, i)
}

const MAXREP: usize = 12;

struct Group {
    first: usize, // index into plan of the first run
    runs: usize,
    reps: Vec<(Vec<u64>, usize)>,
    classes: std::collections::BTreeSet<(u64, usize)>,
    divs: Vec<String>,
    min_len: usize,
    max_len: usize,
    div_instr: u64,
    div_pcs: std::collections::BTreeSet<u64>,
}

fn flush(out: &mut impl Write, plan: &[PlanRun], g: &Group) {
    let p = &plan[g.first];
    writeln!(
        out,
        "{{\"row\":\"{}\",\"ri\":{},\"n\":{},\"pub\":\"{}\",\"pi\":{},\"runs\":{},\"distinct\":{},\"min_events\":{},\"max_events\":{},\"div_instr\":{},\"div_pcs\":[{}],\"divs\":{}}}",
        p.row,
        p.ri,
        p.n,
        p.pubname,
        p.pi,
        g.runs,
        g.classes.len(),
        g.min_len,
        g.max_len,
        g.div_instr,
        g.div_pcs.iter().map(|p| p.to_string()).collect::<Vec<_>>().join(","),
        if g.divs.is_empty() { "null".to_string() } else { format!("[{}]", g.divs.join(",")) }
    )
    .unwrap();
}

fn main() {
    let args: Vec<String> = std::env::args().collect();
    let begin = u64::from_str_radix(args[1].trim_start_matches("0x"), 16).unwrap();
    let end = u64::from_str_radix(args[2].trim_start_matches("0x"), 16).unwrap();
    let plan: Vec<PlanRun> = std::fs::read_to_string(&args[3])
        .unwrap()
        .lines()
        .map(|l| {
            let f: Vec<&str> = l.split('\t').collect();
            PlanRun { ri: f[0].parse().unwrap(), row: f[1].to_string(), n: f[2].parse().unwrap(), pi: f[3].parse().unwrap(), pubname: f[4].to_string(), secrets: f[6].to_string() }
        })
        .collect();
    // optional: addresses of div/idiv instructions of the binary (from objdump); executed ones are counted per group
    let divs: std::collections::HashSet<u64> = match args.get(4) {
        Some(f) => std::fs::read_to_string(f).unwrap_or_default().lines().filter_map(|l| u64::from_str_radix(l.trim(), 16).ok()).collect(),
        None => Default::default(),
    };
    let stdin = std::io::stdin();
    let mut inp = std::io::BufReader::with_capacity(1 << 20, stdin.lock());
    let stdout = std::io::stdout();
    let mut out = stdout.lock();
    let mut line: Vec<u8> = Vec::with_capacity(64);
    let mut in_seg = false;
    let mut cur: Vec<u64> = Vec::with_capacity(1 << 20);
    let mut seg = 0usize;
    let mut group: Option<Group> = None;
    let mut total_lines = 0u64;
    let mut seg_divs = 0u64;
    let mut seg_div_pcs: std::collections::BTreeSet<u64> = Default::default();
    loop {
        line.clear();
        let n = inp.read_until(b'\n', &mut line).unwrap();
        if n == 0 {
            break;
        }
        // formats: "I  addr,size" | " L addr,size" | " S addr,size" | " M addr,size"
        if line.len() < 6 {
            continue;
        }
        let kind = match (line[0], line[1]) {
            (b'I', b' ') => 0u64,
            (b' ', b'L') => 1,
            (b' ', b'S') => 2,
            (b' ', b'M') => 3,
            _ => continue,
        };
        let (addr, used) = hexval(&line[3..]);
        let size = if 3 + used + 1 < line.len() { hexval(&line[3 + used + 1..]).0 } else { 0 };
        if kind == 2 && addr == begin {
            in_seg = true;
            cur.clear();
            continue;
        }
        if kind == 2 && addr == end && in_seg {
            in_seg = false;
            if seg >= plan.len() {
                eprintln!("MACHINERY: more traced runs than planned");
                std::process::exit(2);
            }
            let p = &plan[seg];
            let newgroup = match &group {
                Some(g) => plan[g.first].ri != p.ri || plan[g.first].pi != p.pi,
                None => true,
            };
            if newgroup {
                if let Some(g) = &group {
                    flush(&mut out, &plan, g);
                }
                group = Some(Group { first: seg, runs: 0, reps: Vec::new(), classes: Default::default(), divs: Vec::new(), min_len: usize::MAX, max_len: 0, div_instr: 0, div_pcs: Default::default() });
            }
            let g = group.as_mut().unwrap();
            g.runs += 1;
            g.div_instr += seg_divs;
            seg_divs = 0;
            g.div_pcs.extend(seg_div_pcs.iter().copied());
            seg_div_pcs.clear();
            g.min_len = g.min_len.min(cur.len());
            g.max_len = g.max_len.max(cur.len());
            let mut h = 0xcbf2_9ce4_8422_2325u64;
            for &e in &cur {
                h = (h ^ e).wrapping_mul(0x100_0000_01b3).rotate_left(5);
            }
            if g.classes.insert((h, cur.len())) {
                if !g.reps.is_empty() && g.divs.len() < 24 {
                    let mut best = (0usize, 0usize);
                    for (ri2, (rt, _)) in g.reps.iter().enumerate() {
                        let m = rt.len().min(cur.len());
                        let mut i = 0;
                        while i < m && rt[i] == cur[i] {
                            i += 1;
                        }
                        if i >= best.0 {
                            best = (i, ri2);
                        }
                    }
                    let (di, rix) = best;
                    let rt = &g.reps[rix].0;
                    // last instruction at or before the divergence (in the common prefix): the deciding instruction
                    let mut pc_last = 0u64;
                    let mut j = di.min(cur.len());
                    while j > 0 {
                        j -= 1;
                        if cur[j] >> 62 == 0 {
                            pc_last = cur[j] & 0x00ff_ffff_ffff_ffff;
                            break;
                        }
                    }
                    // up to 12 earlier instruction addresses (most recent first) for attribution when the deciding
                    // instruction carries no crypto-bigint debug frame
                    let mut hist: Vec<String> = Vec::new();
                    let mut j2 = j;
                    while j2 > 0 && hist.len() < 12 {
                        j2 -= 1;
                        if cur[j2] >> 62 == 0 {
                            hist.push(format!("{}", cur[j2] & 0x00ff_ffff_ffff_ffff));
                        }
                    }
                    let ce = if di < cur.len() { cur[di] } else { u64::MAX };
                    let re = if di < rt.len() { rt[di] } else { u64::MAX };
                    let ipc = |e: u64| if e != u64::MAX && e >> 62 == 0 { e & 0x00ff_ffff_ffff_ffff } else { 0 };
                    g.divs.push(format!(
                        "{{\"index\":{di},\"pc_last\":{pc_last},\"pc_hist\":[{}],\"pc_cur\":{},\"pc_ref\":{},\"ref_event\":\"{re:#x}\",\"cur_event\":\"{ce:#x}\",\"ref_len\":{},\"cur_len\":{},\"ref_secrets\":\"{}\",\"cur_secrets\":\"{}\"}}",
                        hist.join(","),
                        ipc(ce),
                        ipc(re),
                        rt.len(),
                        cur.len(),
                        plan[g.reps[rix].1].secrets,
                        p.secrets
                    ));
                }
                if g.reps.len() < MAXREP {
                    g.reps.push((cur.clone(), seg));
                }
            }
            seg += 1;
            continue;
        }
        if in_seg {
            total_lines += 1;
            if kind == 0 && !divs.is_empty() && divs.contains(&addr) {
                seg_divs += 1;
                seg_div_pcs.insert(addr);
            }
            cur.push((kind << 62) | ((size & 0x3f) << 56) | (addr & 0x00ff_ffff_ffff_ffff));
        }
    }
    if let Some(g) = &group {
        flush(&mut out, &plan, g);
    }
    if seg != plan.len() {
        eprintln!("MACHINERY: traced {seg} runs, planned {}", plan.len());
        std::process::exit(2);
    }
    writeln!(out, "{{\"lines\":{total_lines},\"segments\":{seg}}}").unwrap();
}
