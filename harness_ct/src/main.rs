//! C01 — secret-independent execution (engine E3: trace equivalence over enumerated secrets).
//!
//! One binary, three modes:
//!   san     (built with SanitizerCoverage, feature "san"): layer A, in-process IR-level traces
//!           (edge guards, load/store addresses, gep indices, division operands);
//!   plan    print the run plan of a slice (row, width, public assignment, secret tuple) for the lackey consumer;
//!   lackey  execute the same plan with marker stores around each run (run under `valgrind --tool=lackey --trace-mem=yes`).
#![allow(static_mut_refs)]
#![allow(clippy::missing_safety_doc)]

mod ops;

use std::alloc::{GlobalAlloc, Layout, System};
use std::io::Write;
use std::sync::atomic::{AtomicBool, AtomicUsize, Ordering};

// ---------------------------------------------------------------------------------------------
// Allocator: inside a traced run, allocations come from a bump arena that is reset before every run, so heap
// addresses of boxed operands are comparable between runs and a secret-dependent allocation size shows up.
const ARENA_SIZE: usize = 64 << 20;
static mut ARENA: [u8; ARENA_SIZE] = [0; ARENA_SIZE];
static ARENA_OFF: AtomicUsize = AtomicUsize::new(0);
static IN_RUN: AtomicBool = AtomicBool::new(false);

struct RunArena;
unsafe impl GlobalAlloc for RunArena {
    unsafe fn alloc(&self, l: Layout) -> *mut u8 {
        if IN_RUN.load(Ordering::Relaxed) {
            let base = unsafe { ARENA.as_mut_ptr() as usize };
            let off = ARENA_OFF.load(Ordering::Relaxed);
            let start = (base + off + l.align() - 1) & !(l.align() - 1);
            let end = start + l.size();
            if end > base + ARENA_SIZE {
                return std::ptr::null_mut();
            }
            ARENA_OFF.store(end - base, Ordering::Relaxed);
            start as *mut u8
        } else {
            unsafe { System.alloc(l) }
        }
    }
    unsafe fn dealloc(&self, p: *mut u8, l: Layout) {
        let base = unsafe { ARENA.as_ptr() as usize };
        let a = p as usize;
        if a >= base && a < base + ARENA_SIZE {
            return; // arena memory is reclaimed wholesale by the reset
        }
        unsafe { System.dealloc(p, l) }
    }
}
#[global_allocator]
static GLOBAL: RunArena = RunArena;

/// true during the first `prep` of a (row, public assignment) group: objects derived from PUBLIC parameters only
/// (Montgomery parameters) are built then, outside the arena, and reused by the other runs of the group.
pub static PUB_FRESH: AtomicBool = AtomicBool::new(false);
pub fn pub_fresh() -> bool {
    PUB_FRESH.load(Ordering::Relaxed)
}
pub fn arena_reset() {
    ARENA_OFF.store(0, Ordering::Relaxed);
}
pub fn arena_enter() {
    IN_RUN.store(true, Ordering::Relaxed);
}
pub fn arena_leave() {
    IN_RUN.store(false, Ordering::Relaxed);
}

// ---------------------------------------------------------------------------------------------
// Input slots and result sink (fixed addresses).
pub const MAXL: usize = 64;
#[repr(C, align(64))]
pub struct Slots {
    pub a: [u64; MAXL],
    pub b: [u64; MAXL],
    pub c: [u64; MAXL],
    pub p: [u64; MAXL],
    pub k: u64,
}
pub static mut IN: Slots = Slots { a: [0; MAXL], b: [0; MAXL], c: [0; MAXL], p: [0; MAXL], k: 0 };
pub static mut OUT: [u64; 4 * MAXL] = [0; 4 * MAXL];
static mut MARK: [u64; 16] = [0; 16];

#[inline(always)]
pub fn sink(i: usize, v: u64) {
    unsafe { core::ptr::write_volatile(&mut OUT[i], v) }
}
pub fn sink_words(off: usize, v: &[u64]) {
    for (i, x) in v.iter().enumerate() {
        sink(off + i, *x);
    }
}

// ---------------------------------------------------------------------------------------------
// Layer A recorder (SanitizerCoverage callbacks).
#[cfg(feature = "san")]
pub mod rec {
    /// events of the current run (the callbacks only record; all comparing happens after the run)
    pub const BUF: usize = 1 << 23;
    pub static mut ACTIVE: bool = false;
    pub static mut CUR: [u64; BUF] = [0; BUF];
    pub static mut IDX: usize = 0;
    pub static mut HASH: u64 = 0;
    pub static mut HASH2: u64 = 0;
    pub static mut NGUARDS: u32 = 0;
    pub static mut PCS: [usize; 1 << 18] = [0; 1 << 18];
    pub static mut NPCS: usize = 0;
    pub static mut DIVS: u64 = 0;

    #[inline(always)]
    unsafe fn ev(kind: u64, val: u64) {
        unsafe {
            if !ACTIVE {
                return;
            }
            let e = (kind << 60) ^ (val & 0x0fff_ffff_ffff_ffff);
            HASH = (HASH ^ e).wrapping_mul(0x100_0000_01b3).rotate_left(5);
            HASH2 = HASH2.wrapping_add(e.wrapping_mul(0x9E37_79B9_7F4A_7C15) ^ (IDX as u64));
            if kind == 5 {
                DIVS += 1;
            }
            if IDX < BUF {
                CUR[IDX] = e;
            }
            IDX += 1;
        }
    }
    pub fn pc_of_guard(g: u64) -> usize {
        unsafe { if g >= 1 && (g as usize) <= NPCS.min(PCS.len()) { PCS[g as usize - 1] } else { 0 } }
    }

    #[unsafe(no_mangle)]
    pub unsafe extern "C" fn __sanitizer_cov_trace_pc_guard_init(start: *mut u32, stop: *mut u32) {
        unsafe {
            if start == stop || *start != 0 {
                return;
            }
            let mut g = start;
            while g < stop {
                NGUARDS += 1;
                *g = NGUARDS;
                g = g.add(1);
            }
        }
    }
    #[unsafe(no_mangle)]
    pub unsafe extern "C" fn __sanitizer_cov_pcs_init(beg: *const usize, end: *const usize) {
        unsafe {
            let mut p = beg;
            while p < end {
                if NPCS < PCS.len() {
                    PCS[NPCS] = *p;
                }
                NPCS += 1;
                p = p.add(2);
            }
        }
    }
    #[unsafe(no_mangle)]
    pub unsafe extern "C" fn __sanitizer_cov_trace_pc_guard(guard: *mut u32) {
        unsafe { ev(1, *guard as u64) }
    }
    macro_rules! mem_cb {
        ($($name:ident, $kind:expr);*) => {$(
            #[unsafe(no_mangle)]
            pub unsafe extern "C" fn $name(addr: *const u8) {
                unsafe { ev($kind, addr as u64) }
            }
        )*};
    }
    mem_cb!(__sanitizer_cov_load1, 2; __sanitizer_cov_load2, 2; __sanitizer_cov_load4, 2; __sanitizer_cov_load8, 2; __sanitizer_cov_load16, 2;
            __sanitizer_cov_store1, 3; __sanitizer_cov_store2, 3; __sanitizer_cov_store4, 3; __sanitizer_cov_store8, 3; __sanitizer_cov_store16, 3);
    #[unsafe(no_mangle)]
    pub unsafe extern "C" fn __sanitizer_cov_trace_gep(idx: usize) {
        unsafe { ev(4, idx as u64) }
    }
    #[unsafe(no_mangle)]
    pub unsafe extern "C" fn __sanitizer_cov_trace_div4(v: u32) {
        unsafe { ev(5, v as u64) }
    }
    #[unsafe(no_mangle)]
    pub unsafe extern "C" fn __sanitizer_cov_trace_div8(v: u64) {
        unsafe { ev(5, v) }
    }
}

// ---------------------------------------------------------------------------------------------
// generators (small local copy: the C01 harness has no other dependencies)
pub const MAX: u64 = u64::MAX;
pub const TOP: u64 = 1 << 63;
pub type Limbs = Vec<u64>;
fn full(n: usize, alpha: &[u64]) -> Vec<Limbs> {
    let k = alpha.len();
    (0..k.pow(n as u32)).map(|mut i| (0..n).map(|_| { let v = alpha[i % k]; i /= k; v }).collect()).collect()
}
fn runs2(n: usize, alpha: &[u64]) -> Vec<Limbs> {
    let mut out: Vec<Limbs> = alpha.iter().map(|&a| vec![a; n]).collect();
    for &a in alpha {
        for &b in alpha {
            if a != b {
                for cut in 1..n {
                    out.push((0..n).map(|i| if i < cut { a } else { b }).collect());
                }
            }
        }
    }
    out
}
fn thin<T: Clone>(v: Vec<T>, max: usize) -> Vec<T> {
    if v.len() <= max || max < 2 {
        return v;
    }
    let n = v.len();
    (0..max).map(|i| v[i * (n - 1) / (max - 1)].clone()).collect()
}
/// secret values for one operand of n limbs.  Deliberately independent of VERIF_SEED: the set of divergence sites
/// (and with it the known-finding keys) must be reproducible from run to run.
fn secret_values(n: usize, cap: usize) -> Vec<Limbs> {
    let g = 0x0123_4567_89AB_CDEFu64;
    let l5 = [0u64, 1, MAX, TOP, MAX - 1];
    let l3 = [0u64, 1, MAX];
    let generic: Limbs = (0..n).map(|i| g.rotate_left(i as u32 * 7) | 1).collect();
    if n >= 32 {
        // Karatsuba widths: what matters is which half / quarter of an operand is larger
        let half = |lo: u64, hi: u64| -> Limbs { (0..n).map(|i| if i < n / 2 { lo } else { hi }).collect() };
        let quarter = |q: [u64; 4]| -> Limbs { (0..n).map(|i| q[(4 * i / n).min(3)]).collect() };
        let v = vec![half(MAX, 0), half(0, MAX), vec![0; n], generic, quarter([MAX, 0, 0, MAX]), quarter([0, MAX, MAX, 0]), vec![MAX; n], half(1, 2), half(2, 1)];
        return v.into_iter().take(cap.max(4)).collect();
    }
    let v = if n <= 2 { full(n, &l5) } else { runs2(n, &l3) };
    // named specials (always kept when the list is thinned): B^(n-1) (bit length just above a multiple of 64), a power of two, generic
    let mut one_top = vec![0u64; n];
    one_top[n - 1] = 1;
    let mut p2 = vec![0u64; n];
    p2[n / 2] = 1 << 17;
    let mut specials = vec![one_top, p2, generic];
    specials.truncate((cap / 3).clamp(1, 3));
    let mut seen = std::collections::BTreeSet::new();
    let mut v = thin(v, cap.saturating_sub(specials.len()).max(2));
    v.extend(specials);
    v.retain(|x| seen.insert(x.clone()));
    v
}

pub struct Pub {
    pub name: String,
    pub p: Limbs,
    pub k: u64,
}

pub struct Row {
    pub name: &'static str,
    pub n: usize,
    /// number of secret value slots (a, b, c)
    pub nsecret: usize,
    /// secret scalar list for IN.k when the scalar is secret (shift amount, bit index, choice); empty = none
    pub secret_k: Vec<u64>,
    pub publics: Vec<Pub>,
    pub prep: fn(),
    pub exec: fn(),
    /// heavy rows get fewer secrets (pow, inversion, sqrt, division at large widths)
    pub heavy: bool,
    /// documented vartime w.r.t. everything listed as public here
    pub vartime: bool,
}

pub struct RunSpec {
    pub row: usize,
    pub pubi: usize,
    pub secrets: Vec<Limbs>,
    pub k: u64,
}

fn tuples(row: &Row, layer_b: bool, thorough: bool) -> Vec<(Vec<Limbs>, u64)> {
    let per = match (row.nsecret.max(1), layer_b, row.heavy) {
        (_, true, true) => if thorough { 4 } else { 3 },
        (1, true, false) => if thorough { 16 } else { 9 },
        (2, true, false) => if thorough { 6 } else { 4 },
        (_, true, false) => if thorough { 4 } else { 3 },
        (1, false, true) => if thorough { 16 } else { 10 },
        (_, false, true) => if thorough { 6 } else { 4 },
        (1, false, false) => if thorough { 60 } else { 40 },
        (2, false, false) => if thorough { 25 } else { 14 },
        (_, false, false) => if thorough { 9 } else { 6 },
    };
    let vals = secret_values(row.n, per);
    let mut out: Vec<Vec<Limbs>> = vec![vec![]];
    for _ in 0..row.nsecret {
        let mut nx = Vec::new();
        for t in &out {
            for v in &vals {
                let mut t2 = t.clone();
                t2.push(v.clone());
                nx.push(t2);
            }
        }
        out = nx;
    }
    let ks: Vec<u64> = if row.secret_k.is_empty() { vec![u64::MAX] } else if layer_b { thin(row.secret_k.clone(), 5) } else { row.secret_k.clone() };
    let mut res = Vec::new();
    for t in out {
        for &k in &ks {
            res.push((t.clone(), k));
        }
    }
    res
}

fn load_inputs(row: &Row, pb: &Pub, secrets: &[Limbs], k: u64) {
    unsafe {
        IN.a = [0; MAXL];
        IN.b = [0; MAXL];
        IN.c = [0; MAXL];
        IN.p = [0; MAXL];
        for (i, s) in secrets.iter().enumerate() {
            let dst = match i {
                0 => &mut IN.a,
                1 => &mut IN.b,
                _ => &mut IN.c,
            };
            dst[..s.len()].copy_from_slice(s);
        }
        IN.p[..pb.p.len()].copy_from_slice(&pb.p);
        IN.k = if k == u64::MAX && row.secret_k.is_empty() { pb.k } else { k };
    }
}

#[inline(never)]
fn run_exec(f: fn()) {
    f()
}

fn hexl(l: &[u64]) -> String {
    format!("[{}]", l.iter().map(|x| format!("{x:#x}")).collect::<Vec<_>>().join(","))
}

fn load_base() -> usize {
    let maps = std::fs::read_to_string("/proc/self/maps").unwrap_or_default();
    let exe = std::env::current_exe().ok().and_then(|p| p.to_str().map(|s| s.to_string())).unwrap_or_default();
    for line in maps.lines() {
        if line.ends_with(&exe) {
            if let Some(a) = line.split('-').next() {
                return usize::from_str_radix(a, 16).unwrap_or(0);
            }
        }
    }
    0
}

fn main() {
    let args: Vec<String> = std::env::args().collect();
    let mode = args.get(1).map(|s| s.as_str()).unwrap_or("san");
    let get = |name: &str| args.iter().position(|a| a == name).and_then(|i| args.get(i + 1).cloned());
    let tier = get("--tier").unwrap_or_else(|| "quick".into());
    let thorough = tier == "thorough";
    let (slice_i, slice_n) = get("--slice").map(|s| { let mut it = s.split('/'); (it.next().unwrap().parse::<usize>().unwrap(), it.next().unwrap().parse::<usize>().unwrap()) }).unwrap_or((0, 1));
    let only = get("--row");
    let rows = ops::table(thorough);
    let out = std::io::stdout();
    let mut out = out.lock();
    match mode {
        "markers" => {
            writeln!(out, "{:#x} {:#x}", unsafe { &MARK[0] as *const u64 as usize }, unsafe { &MARK[8] as *const u64 as usize }).unwrap();
        }
        "rows" => {
            for (i, r) in rows.iter().enumerate() {
                writeln!(out, "{i}\t{}\t{}\tsecrets={}\tpublics={}\theavy={}\tvartime={}", r.name, r.n, r.nsecret, r.publics.len(), r.heavy, r.vartime).unwrap();
            }
        }
        #[cfg(feature = "san")]
        "san" => {
            writeln!(out, "{{\"base\":{},\"nguards\":{}}}", load_base(), unsafe { rec::NGUARDS }).unwrap();
            for (ri, row) in rows.iter().enumerate() {
                if let Some(o) = &only {
                    if !row.name.contains(o.as_str()) {
                        continue;
                    }
                }
                let tp = tuples(row, false, thorough);
                for (pi, pb) in row.publics.iter().enumerate() {
                    // trace trie: up to MAXREP class representatives are kept; a run whose trace is new is compared with
                    // every representative and the one sharing the longest prefix gives the point where it branches off.
                    const MAXREP: usize = 12;
                    let mut hashes: std::collections::BTreeMap<(u64, u64, usize), usize> = std::collections::BTreeMap::new();
                    let mut reps: Vec<(Vec<u64>, usize)> = Vec::new();
                    let mut divs_json: Vec<String> = Vec::new();
                    let mut min_events = usize::MAX;
                    let mut max_events = 0usize;
                    let mut divs = 0u64;
                    for (ti, (secrets, k)) in tp.iter().enumerate() {
                        load_inputs(row, pb, secrets, *k);
                        arena_reset();
                        arena_enter();
                        PUB_FRESH.store(ti == 0, Ordering::Relaxed);
                        (row.prep)();
                        unsafe {
                            rec::IDX = 0;
                            rec::HASH = 0xcbf2_9ce4_8422_2325;
                            rec::HASH2 = 0;
                            rec::DIVS = 0;
                            rec::ACTIVE = true;
                        }
                        run_exec(row.exec);
                        unsafe {
                            rec::ACTIVE = false;
                        }
                        arena_leave();
                        let (idx, h, h2) = unsafe { (rec::IDX, rec::HASH, rec::HASH2) };
                        if idx > rec::BUF {
                            eprintln!("MACHINERY: trace of {} n={} exceeds the event buffer ({idx})", row.name, row.n);
                            std::process::exit(2);
                        }
                        divs += unsafe { rec::DIVS };
                        min_events = min_events.min(idx);
                        max_events = max_events.max(idx);
                        let cnt = hashes.len();
                        if hashes.contains_key(&(h, h2, idx)) {
                            continue;
                        }
                        hashes.insert((h, h2, idx), cnt);
                        let cur: &[u64] = unsafe { &rec::CUR[..idx] };
                        if !reps.is_empty() && divs_json.len() < 24 {
                            // longest common prefix over the representatives
                            let mut best = (0usize, 0usize);
                            for (ri2, (rt, _)) in reps.iter().enumerate() {
                                let mut i = 0;
                                let m = rt.len().min(cur.len());
                                while i < m && rt[i] == cur[i] {
                                    i += 1;
                                }
                                if i >= best.0 {
                                    best = (i, ri2);
                                }
                            }
                            let (di, rix) = best;
                            let rt = &reps[rix].0;
                            let mut lg = 0u64;
                            let mut j = di.min(cur.len());
                            while j > 0 {
                                j -= 1;
                                if cur[j] >> 60 == 1 {
                                    lg = cur[j] & 0x0fff_ffff_ffff_ffff;
                                    break;
                                }
                            }
                            let mut hist: Vec<String> = Vec::new();
                            let mut j2 = j;
                            while j2 > 0 && hist.len() < 12 {
                                j2 -= 1;
                                if cur[j2] >> 60 == 1 {
                                    hist.push(format!("{}", rec::pc_of_guard(cur[j2] & 0x0fff_ffff_ffff_ffff)));
                                }
                            }
                            let ce = if di < cur.len() { cur[di] } else { 0 };
                            let re = if di < rt.len() { rt[di] } else { 0 };
                            let gpc = |e: u64| if e >> 60 == 1 { rec::pc_of_guard(e & 0x0fff_ffff_ffff_ffff) } else { 0 };
                            let rs = &tp[reps[rix].1];
                            divs_json.push(format!(
                                "{{\"index\":{di},\"pc_last_guard\":{},\"pc_hist\":[{}],\"pc_cur\":{},\"pc_ref\":{},\"ref_event\":\"{re:#x}\",\"cur_event\":\"{ce:#x}\",\"ref_len\":{},\"cur_len\":{},\"ref_secrets\":\"{} k={}\",\"cur_secrets\":\"{} k={}\"}}",
                                rec::pc_of_guard(lg), hist.join(","), gpc(ce), gpc(re), rt.len(), cur.len(),
                                rs.0.iter().map(|s| hexl(s)).collect::<Vec<_>>().join(" "), rs.1 as i64,
                                secrets.iter().map(|s| hexl(s)).collect::<Vec<_>>().join(" "), *k as i64
                            ));
                        }
                        if reps.len() < MAXREP {
                            reps.push((cur.to_vec(), ti));
                        }
                    }
                    let first_div: Option<String> = if divs_json.is_empty() { None } else { Some(format!("[{}]", divs_json.join(","))) };
                    // read the sink back so that the computation is observable
                    let chk = unsafe { OUT.iter().fold(0u64, |a, &x| a.rotate_left(1) ^ core::ptr::read_volatile(&x)) };
                    writeln!(
                        out,
                        "{{\"row\":\"{}\",\"ri\":{ri},\"n\":{},\"pub\":\"{}\",\"pi\":{pi},\"runs\":{},\"distinct\":{},\"min_events\":{},\"max_events\":{max_events},\"div_events\":{},\"vartime\":{},\"chk\":{},\"divs\":{}}}",
                        row.name, row.n, pb.name, tp.len(), hashes.len(), min_events, divs, row.vartime, chk, first_div.unwrap_or_else(|| "null".into())
                    )
                    .unwrap();
                }
            }
        }
        "plan" | "lackey" => {
            // identical enumeration in both modes; `plan` only prints it
            let run_lackey = mode == "lackey";
            if run_lackey {
                eprintln!("MARKERS begin={:#x} end={:#x} code={:#x} base={:#x}", unsafe { &MARK[0] as *const u64 as usize }, unsafe { &MARK[8] as *const u64 as usize }, run_exec as *const () as usize, load_base());
            }
            let mut gidx = 0usize;
            for (ri, row) in rows.iter().enumerate() {
                if let Some(o) = &only {
                    if !row.name.contains(o.as_str()) {
                        continue;
                    }
                }
                // quick tier, layer B: the safegcd-based rows (hundreds of thousands of trace lines per run) stay at <= 2 limbs
                let lname = row.name.to_ascii_lowercase();
                if !thorough && row.heavy && row.n > 2 && (lname.contains("inv") || lname.contains("gcd")) && !lname.contains("mod2k") {
                    continue;
                }
                let mut tp: Vec<(Vec<Limbs>, u64)> = Vec::new();
                for (pi, pb) in row.publics.iter().enumerate() {
                    gidx += 1;
                    if gidx % slice_n != slice_i {
                        continue;
                    }
                    if tp.is_empty() {
                        tp = tuples(row, true, thorough);
                    }
                    for (ti, (secrets, k)) in tp.iter().enumerate() {
                        if !run_lackey {
                            writeln!(out, "{ri}\t{}\t{}\t{pi}\t{}\t{ti}\t{} k={}", row.name, row.n, pb.name, secrets.iter().map(|s| hexl(s)).collect::<Vec<_>>().join(" "), *k as i64).unwrap();
                            continue;
                        }
                        load_inputs(row, pb, secrets, *k);
                        arena_reset();
                        arena_enter();
                        PUB_FRESH.store(ti == 0, Ordering::Relaxed);
                        (row.prep)();
                        unsafe { core::ptr::write_volatile(&mut MARK[0], ti as u64 + 1) };
                        run_exec(row.exec);
                        unsafe { core::ptr::write_volatile(&mut MARK[8], ti as u64 + 1) };
                        arena_leave();
                    }
                }
            }
            if run_lackey {
                let chk = unsafe { OUT.iter().fold(0u64, |a, &x| a.rotate_left(1) ^ core::ptr::read_volatile(&x)) };
                eprintln!("CHECKSUM {chk:#x}");
            }
        }
        _ => {
            eprintln!("usage: c01 <san|plan|lackey|rows> [--tier t] [--slice i/n] [--row substr]");
            std::process::exit(2);
        }
    }
}
