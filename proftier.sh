#!/bin/bash
# proftier.sh <Cxx> [timeout_s] : run the thorough tier with per-section progress and print the heaviest sections (developer aid)
p=$1; to=${2:-1800}
s=$(date +%s)
VERIF_PROGRESS=1 timeout $to /verif/check $p thorough > /tmp/prof_$p.out 2> /tmp/prof_$p.err; rc=$?
e=$(date +%s)
echo "$p rc=$rc wall=$((e-s))s viol=$(grep -c VIOLATION /tmp/prof_$p.out)"
grep "^\[section\]" /tmp/prof_$p.err | python3 -c "
import sys,re,collections
rows=[];fam=collections.Counter()
for l in sys.stdin:
    m=re.match(r'\[section\] (\S+) (.*): cases=(\d+) wall=([\d.]+)s',l)
    if m: rows.append((float(m.group(4)),m.group(1),m.group(2),int(m.group(3)))); fam[m.group(1)]+=float(m.group(4))
rows.sort(reverse=True)
print('  sections',len(rows),'sum',round(sum(r[0] for r in rows),1),'families',{k:round(v,1) for k,v in fam.most_common(6)})
for r in rows[:6]: print('  ',r)
"
tail -1 /tmp/prof_$p.err | cut -c1-200
