//! Run context: CLI, counters, failure collection, known findings, evidence + replay writers,
//! panic capture, static-partition parallel driver with watchdog.

use serde_json::{Value, json};
use std::cell::RefCell;
use std::collections::{BTreeMap, BTreeSet};
use std::panic::{AssertUnwindSafe, catch_unwind};
use std::sync::atomic::{AtomicBool, AtomicU64, AtomicUsize, Ordering};
use std::sync::{Arc, Mutex};
use std::time::{Duration, Instant};

pub const VERIF_DIR: &str = "/verif";

#[derive(Clone, Debug)]
pub struct Failure {
    /// properties this failure violates (family property, and C11 / C15 where applicable)
    pub props: Vec<&'static str>,
    pub family: &'static str,
    pub form: String,
    /// oracle-side input class (part of the known-finding key)
    pub class: String,
    pub width: String,
    pub inputs: Vec<String>,
    pub expected: String,
    pub got: String,
}

impl Failure {
    pub fn key(&self) -> String {
        format!("{}/{}", self.form, self.class)
    }
}

#[derive(Default)]
pub struct Local {
    pub evals: u64,
    pub cases: u64,
    pub nontrivial: u64,
    pub classes: BTreeMap<&'static str, u64>,
    pub forms: BTreeMap<&'static str, u64>,
    pub fails: Vec<(usize, Failure)>,
    pub fail_counts: BTreeMap<String, u64>,
    pub samples: Vec<String>,
    pub cur_index: usize,
    /// C15 pair accounting (only when the run reports C15)
    pub count_pairs: bool,
    pub pairs: BTreeMap<(&'static str, &'static str), u64>,
}

impl Local {
    #[inline]
    pub fn class(&mut self, c: &'static str) {
        *self.classes.entry(c).or_insert(0) += 1;
    }
    #[inline]
    pub fn form(&mut self, f: &'static str) {
        *self.forms.entry(f).or_insert(0) += 1;
        self.evals += 1;
    }
    pub fn fail(&mut self, f: Failure) {
        let k = format!("{:?}|{}", f.props, f.key());
        let c = self.fail_counts.entry(k).or_insert(0);
        *c += 1;
        if *c <= 3 {
            self.fails.push((self.cur_index, f));
        }
    }
    fn merge(&mut self, o: Local) {
        self.evals += o.evals;
        self.cases += o.cases;
        self.nontrivial += o.nontrivial;
        for (k, v) in o.classes {
            *self.classes.entry(k).or_insert(0) += v;
        }
        for (k, v) in o.forms {
            *self.forms.entry(k).or_insert(0) += v;
        }
        self.fails.extend(o.fails);
        for (k, v) in o.fail_counts {
            *self.fail_counts.entry(k).or_insert(0) += v;
        }
        for (k, v) in o.pairs {
            *self.pairs.entry(k).or_insert(0) += v;
        }
        for s in o.samples {
            if self.samples.len() < 24 && !self.samples.iter().any(|x| x.split(' ').take(2).eq(s.split(' ').take(2))) {
                self.samples.push(s);
            }
        }
    }
}

pub struct Ctx {
    /// property whose verdict this run reports
    pub prop: String,
    /// property that owns the families in this binary (for default attribution)
    pub tier: String,
    pub seed: u64,
    pub flavour: String,
    pub evidence_path: String,
    pub level: String,
    pub threads: usize,
    pub only_family: Option<String>,
    /// explore only every `stride`-th index of each family's enumeration (1 = complete); used by the C11/C15 quick tiers
    pub stride: usize,
    pub replay: Option<Value>,
    pub start: Instant,
    pub total: Mutex<Local>,
    pub sections: Mutex<Vec<Value>>,
    pub extra: Mutex<BTreeMap<String, Value>>,
    pub assumptions: Mutex<Vec<String>>,
    pub rule: Mutex<String>,
    pub exhaustive: AtomicBool,
    pub watchdog_ms: AtomicU64,
    /// thorough tier: maximum number of indices per section (3M unless a binary with cheap cases raises it)
    pub section_cap: AtomicUsize,
    pub states: AtomicU64,
    pub transitions: AtomicU64,
}

thread_local! {
    static LAST_PANIC: RefCell<Option<String>> = const { RefCell::new(None) };
    static IN_GUARD: RefCell<bool> = const { RefCell::new(false) };
}

pub fn install_panic_hook() {
    let default = std::panic::take_hook();
    std::panic::set_hook(Box::new(move |info| {
        let guarded = IN_GUARD.with(|g| *g.borrow());
        if guarded {
            let msg = if let Some(s) = info.payload().downcast_ref::<&str>() {
                s.to_string()
            } else if let Some(s) = info.payload().downcast_ref::<String>() {
                s.clone()
            } else {
                "<non-string panic>".to_string()
            };
            let loc = info.location().map(|l| format!("{}:{}", l.file(), l.line())).unwrap_or_default();
            LAST_PANIC.with(|p| *p.borrow_mut() = Some(format!("{msg} @ {loc}")));
        } else {
            default(info);
        }
    }));
}

/// Run the subject call only; a panic inside is the subject's (DESIGN §2.1 rule 6).
#[inline]
pub fn guard<T>(f: impl FnOnce() -> T) -> Result<T, String> {
    IN_GUARD.with(|g| *g.borrow_mut() = true);
    let r = catch_unwind(AssertUnwindSafe(f));
    IN_GUARD.with(|g| *g.borrow_mut() = false);
    match r {
        Ok(v) => Ok(v),
        Err(_) => Err(LAST_PANIC.with(|p| p.borrow_mut().take()).unwrap_or_else(|| "panic".into())),
    }
}

impl Ctx {
    /// args: --prop Cxx --tier quick|thorough --flavour rel|dbg --evidence path [--family f] [--replay file]
    pub fn from_args(default_prop: &str, level: &str) -> Ctx {
        install_panic_hook();
        let args: Vec<String> = std::env::args().collect();
        let get = |name: &str| -> Option<String> {
            args.iter().position(|a| a == name).and_then(|i| args.get(i + 1).cloned())
        };
        let prop = get("--prop").unwrap_or_else(|| default_prop.to_string());
        let tier = get("--tier")
            .or_else(|| std::env::var("VERIF_TIER").ok())
            .unwrap_or_else(|| "quick".to_string());
        let flavour = get("--flavour").unwrap_or_else(|| {
            if cfg!(debug_assertions) { "dbg".to_string() } else { "rel".to_string() }
        });
        let seed = std::env::var("VERIF_SEED").ok().and_then(|s| s.parse::<u64>().ok()).unwrap_or(0);
        let evidence_path = get("--evidence").unwrap_or_else(|| format!("{VERIF_DIR}/evidence/{prop}.json"));
        let threads = std::env::var("VERIF_THREADS").ok().and_then(|s| s.parse().ok()).unwrap_or(16);
        let only_family = get("--family");
        let stride = get("--stride").and_then(|s| s.parse().ok()).unwrap_or(1usize).max(1);
        let replay = get("--replay").map(|p| {
            let s = std::fs::read_to_string(&p).unwrap_or_else(|e| {
                eprintln!("cannot read replay file {p}: {e}");
                std::process::exit(2)
            });
            serde_json::from_str(&s).expect("replay json")
        });
        Ctx {
            prop,
            tier,
            seed,
            flavour,
            evidence_path,
            level: level.to_string(),
            threads,
            only_family,
            stride,
            replay,
            start: Instant::now(),
            total: Mutex::new(Local::default()),
            sections: Mutex::new(Vec::new()),
            extra: Mutex::new(BTreeMap::new()),
            assumptions: Mutex::new(Vec::new()),
            rule: Mutex::new(String::new()),
            exhaustive: AtomicBool::new(true),
            watchdog_ms: AtomicU64::new(60_000),
            section_cap: AtomicUsize::new(3_000_000),
            states: AtomicU64::new(0),
            transitions: AtomicU64::new(0),
        }
    }

    pub fn thorough(&self) -> bool {
        self.tier == "thorough"
    }
    pub fn want(&self, family: &str) -> bool {
        match (&self.only_family, &self.replay) {
            (_, Some(r)) => r["family"].as_str() == Some(family),
            (Some(f), None) => f == family,
            _ => true,
        }
    }
    pub fn assume(&self, s: &str) {
        self.assumptions.lock().unwrap().push(s.to_string());
    }
    pub fn set_rule(&self, s: &str) {
        *self.rule.lock().unwrap() = s.to_string();
    }
    pub fn extra(&self, k: &str, v: Value) {
        self.extra.lock().unwrap().insert(k.to_string(), v);
    }

    /// Deterministic parallel sweep over 0..n. Work is handed out in index chunks; results are merged and
    /// failures sorted by index so the same run reports the same first counterexample.
    pub fn par_for<F>(&self, family: &'static str, width: &str, n: usize, f: F)
    where
        F: Fn(usize, &mut Local) + Sync,
    {
        let t0 = Instant::now();
        let mut stride = if self.replay.is_some() { 1 } else { self.stride };
        let full_n = n;
        // thorough tier: no single section may exceed the section cap (default 3M indices, VERIF_SECTION_CAP overrides);
        // a larger product is visited with an index stride, recorded per section, and the run is no longer `exhaustive`
        if self.replay.is_none() && self.thorough() {
            let cap: usize = std::env::var("VERIF_SECTION_CAP").ok().and_then(|v| v.parse().ok()).unwrap_or(self.section_cap.load(Ordering::Relaxed));
            if n.div_ceil(stride) > cap {
                stride = n.div_ceil(cap);
            }
        }
        if stride > 1 {
            self.exhaustive.store(false, Ordering::Relaxed);
        }
        let n = n.div_ceil(stride);
        let count_pairs = self.prop == "C15";
        let next = AtomicUsize::new(0);
        let threads = self.threads.max(1).min(n.max(1));
        let chunk = (n / (threads * 32)).clamp(1, 4096);
        let status: Vec<Arc<(AtomicU64, AtomicUsize)>> =
            (0..threads).map(|_| Arc::new((AtomicU64::new(0), AtomicUsize::new(0)))).collect();
        let done = AtomicBool::new(false);
        let start = self.start;
        let mut merged = Local::default();
        std::thread::scope(|s| {
            let mut handles = Vec::new();
            for t in 0..threads {
                let st = status[t].clone();
                let next = &next;
                let f = &f;
                handles.push(s.spawn(move || {
                    let mut l = Local::default();
                    l.count_pairs = count_pairs;
                    loop {
                        let lo = next.fetch_add(chunk, Ordering::Relaxed);
                        if lo >= n {
                            break;
                        }
                        let hi = (lo + chunk).min(n);
                        for i in lo..hi {
                            st.1.store(i, Ordering::Relaxed);
                            st.0.store(start.elapsed().as_millis() as u64 + 1, Ordering::Relaxed);
                            let i = i * stride;
                            l.cur_index = i;
                            f(i, &mut l);
                        }
                        st.0.store(0, Ordering::Relaxed);
                    }
                    l
                }));
            }
            // watchdog (per index; 60 s unless the binary declares its indices to be whole explorations)
            let self_watchdog_ms = self.watchdog_ms.load(Ordering::Relaxed);
            let status = &status;
            let done = &done;
            let wd = s.spawn(move || {
                let mut tick = 0u64;
                while !done.load(Ordering::Relaxed) {
                    std::thread::sleep(Duration::from_millis(2));
                    tick += 1;
                    if tick % 100 != 0 {
                        continue;
                    }
                    let now = start.elapsed().as_millis() as u64 + 1;
                    for st in status.iter() {
                        let t = st.0.load(Ordering::Relaxed);
                        if t != 0 && now > t + self_watchdog_ms {
                            let idx = st.1.load(Ordering::Relaxed);
                            let path = format!("{VERIF_DIR}/replays/C11-hang-{family}-{idx}.json");
                            let _ = std::fs::write(
                                &path,
                                json!({"property":"C11","family":family,"index":idx,"kind":"non-termination (>60s)"})
                                    .to_string(),
                            );
                            println!("VIOLATION property=C11 replay={path}");
                            std::process::exit(1);
                        }
                    }
                }
            });
            for h in handles {
                match h.join() {
                    Ok(l) => merged.merge(l),
                    Err(_) => {
                        eprintln!("MACHINERY: worker thread panicked outside guard in family {family}");
                        std::process::exit(2);
                    }
                }
            }
            done.store(true, Ordering::Relaxed);
            let _ = wd.join();
        });
        merged.fails.sort_by(|a, b| a.0.cmp(&b.0));
        let sec = json!({
            "family": family, "width": width, "cases": merged.cases, "applications": merged.evals,
            "index_space": full_n, "explored": n, "stride": stride, "wall_s": t0.elapsed().as_secs_f64(),
        });
        if std::env::var("VERIF_PROGRESS").is_ok() {
            eprintln!("[section] {family} {width}: cases={} wall={:.1}s", merged.cases, t0.elapsed().as_secs_f64());
        }
        self.sections.lock().unwrap().push(sec);
        self.total.lock().unwrap().merge(merged);
    }

    /// single-threaded section (small families)
    pub fn seq<F: FnOnce(&mut Local)>(&self, family: &'static str, width: &str, f: F) {
        let t0 = Instant::now();
        let mut l = Local::default();
        l.count_pairs = self.prop == "C15";
        f(&mut l);
        let sec = json!({"family": family, "width": width, "cases": l.cases, "applications": l.evals,
            "wall_s": t0.elapsed().as_secs_f64()});
        self.sections.lock().unwrap().push(sec);
        self.total.lock().unwrap().merge(l);
    }

    fn known(&self) -> (BTreeMap<String, String>, Vec<String>) {
        // open: property=Cxx key=<key> text...
        let mut open = BTreeMap::new();
        let mut fixed = Vec::new();
        let path = format!("{VERIF_DIR}/KNOWN_FINDINGS.txt");
        if let Ok(s) = std::fs::read_to_string(path) {
            for line in s.lines() {
                let line = line.trim();
                if let Some(rest) = line.strip_prefix("open:") {
                    let mut prop = None;
                    let mut key = None;
                    let mut text = Vec::new();
                    for tok in rest.split_whitespace() {
                        if let Some(p) = tok.strip_prefix("property=") {
                            prop = Some(p.to_string());
                        } else if let Some(k) = tok.strip_prefix("key=") {
                            key = Some(k.to_string());
                        } else {
                            text.push(tok);
                        }
                    }
                    if let (Some(p), Some(k)) = (prop, key) {
                        if p == self.prop {
                            open.insert(k, text.join(" "));
                        }
                    }
                } else if line.starts_with("fixed:") && line.contains(&format!("property={}", self.prop)) {
                    fixed.push(line.to_string());
                }
            }
        }
        (open, fixed)
    }

    /// Write evidence, print verdict lines, return exit code.
    pub fn finish(&self) -> i32 {
        let total = std::mem::take(&mut *self.total.lock().unwrap());
        let (open, _fixed) = self.known();
        let mine: Vec<&(usize, Failure)> =
            total.fails.iter().filter(|(_, f)| f.props.iter().any(|p| *p == self.prop)).collect();
        let mut seen_keys = BTreeSet::new();
        let mut known_lines = Vec::new();
        let mut viol_lines = Vec::new();
        let mut violations = 0usize;
        let _ = std::fs::create_dir_all(format!("{VERIF_DIR}/replays"));
        for (_, f) in &mine {
            let k = f.key();
            if !seen_keys.insert(k.clone()) {
                continue;
            }
            if let Some(text) = open.get(&k) {
                known_lines.push(format!("KNOWN-FINDING: property={} key={} {}", self.prop, k, text));
            } else {
                violations += 1;
                let safe: String =
                    k.chars().map(|c| if c.is_ascii_alphanumeric() || c == '.' || c == '-' { c } else { '_' }).collect();
                let mut h: u64 = 0xcbf29ce484222325;
                for b in k.bytes() {
                    h = (h ^ b as u64).wrapping_mul(0x100000001b3);
                }
                let path = format!("{VERIF_DIR}/replays/{}-{}-{}-{:08x}.json", self.prop, self.flavour, safe, h as u32);
                let body = json!({
                    "property": self.prop, "family": f.family, "form": f.form, "class": f.class, "width": f.width,
                    "inputs": f.inputs, "expected": f.expected, "got": f.got, "flavour": self.flavour,
                    "tier": self.tier, "seed": self.seed, "violates": f.props,
                });
                let _ = std::fs::write(&path, serde_json::to_string_pretty(&body).unwrap());
                if viol_lines.len() < 20 {
                    viol_lines.push(format!("VIOLATION property={} replay={}", self.prop, path));
                    eprintln!(
                        "  {} width={} inputs={:?}\n    expected: {}\n    got:      {}",
                        k, f.width, f.inputs, f.expected, f.got
                    );
                }
            }
        }
        for l in &known_lines {
            println!("{l}");
        }
        for l in &viol_lines {
            println!("{l}");
        }
        let other: u64 = total
            .fails
            .iter()
            .filter(|(_, f)| !f.props.iter().any(|p| *p == self.prop))
            .count() as u64;

        let zero_classes: Vec<&str> =
            total.classes.iter().filter(|(_, v)| **v == 0).map(|(k, _)| *k).collect();
        let mut coverage = json!({
            "evaluations": total.evals,
            "cases": total.cases,
            "distinct_nontrivial": total.nontrivial,
            "rule": *self.rule.lock().unwrap(),
            "samples": total.samples,
            "exhaustive": self.exhaustive.load(Ordering::Relaxed),
            "class_hits": total.classes.iter().map(|(k,v)| (k.to_string(), json!(v))).collect::<serde_json::Map<_,_>>(),
            "form_applications": total.forms.iter().map(|(k,v)| (k.to_string(), json!(v))).collect::<serde_json::Map<_,_>>(),
            "forms": total.forms.len(),
            "zero_hit_classes": zero_classes,
            "sections": *self.sections.lock().unwrap(),
            "flavour": self.flavour,
            "stride": self.stride,
            "form_pairs": total.pairs.len(),
            "form_pair_comparisons": total.pairs.iter().map(|((a, b), v)| (format!("{a} ~ {b}"), json!(v))).collect::<serde_json::Map<_, _>>(),
            "known_findings_observed": known_lines,
            "failures_attributed_to_other_properties": other,
        });
        let st = self.states.load(Ordering::Relaxed);
        let tr = self.transitions.load(Ordering::Relaxed);
        if st > 0 || self.level == "model_checking" {
            coverage["states"] = json!(st);
            coverage["transitions"] = json!(tr);
            coverage["traces_validated_against_impl"] = json!(tr);
        }
        for (k, v) in self.extra.lock().unwrap().iter() {
            coverage[k] = v.clone();
        }
        let ev = json!({
            "property_id": self.prop,
            "tier": self.tier,
            "seed": self.seed,
            "level": self.level,
            "coverage": coverage,
            "assumptions": *self.assumptions.lock().unwrap(),
            "wall_s": self.start.elapsed().as_secs_f64(),
            "violations": violations,
        });
        if let Some(parent) = std::path::Path::new(&self.evidence_path).parent() {
            let _ = std::fs::create_dir_all(parent);
        }
        if self.replay.is_none() {
            std::fs::write(&self.evidence_path, serde_json::to_string_pretty(&ev).unwrap()).expect("write evidence");
        }
        eprintln!(
            "[{} {} {}] cases={} applications={} nontrivial={} forms={} violations={} known={} wall={:.1}s",
            self.prop,
            self.tier,
            self.flavour,
            total.cases,
            total.evals,
            total.nontrivial,
            total.forms.len(),
            violations,
            seen_keys.len() - violations,
            self.start.elapsed().as_secs_f64()
        );
        if violations > 0 { 1 } else { 0 }
    }
}

/// Helper to build a Failure tersely.
pub fn failure(
    props: &[&'static str],
    family: &'static str,
    form: &str,
    class: &str,
    width: String,
    inputs: Vec<String>,
    expected: String,
    got: String,
) -> Failure {
    Failure { props: props.to_vec(), family, form: form.to_string(), class: class.to_string(), width, inputs, expected, got }
}
