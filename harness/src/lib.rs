//! Common machinery of the /verif model-checking harness (see /verif/DESIGN.md §1, §2).
pub mod alpha;
pub mod case;
pub mod report;
pub mod rng;

pub use alpha::*;
pub use case::{Case, Out};
pub use report::{Ctx, Failure, Local, failure, guard};

use crypto_bigint::{BoxedUint, Uint};

/// Dispatch a run-time limb count to a const-generic function.
#[macro_export]
macro_rules! dispatch {
    ($n:expr, [$($w:literal),* $(,)?], $f:ident $args:tt) => {
        match $n {
            $( $w => $f::<$w> $args, )*
            other => panic!("width {other} not instantiated for {}", stringify!($f)),
        }
    };
}

#[inline]
pub fn u<const N: usize>(l: &[u64]) -> Uint<N> {
    let mut a = [0u64; N];
    a.copy_from_slice(l);
    Uint::from_words(a)
}

#[inline]
pub fn bx(l: &[u64]) -> BoxedUint {
    BoxedUint::from_words(l.iter().copied())
}

#[inline]
pub fn w<const N: usize>(x: &Uint<N>) -> Vec<u64> {
    x.as_words().to_vec()
}

#[inline]
pub fn bw(x: &BoxedUint) -> Vec<u64> {
    x.as_words().to_vec()
}

pub fn ct_some<T>(o: subtle::CtOption<T>) -> Option<T> {
    Option::from(o)
}
