//! One explored state of engine E1: an operand tuple, to which every form of a family is applied.

use crate::alpha::hex;
use crate::report::{Failure, Local};

#[derive(PartialEq, Eq, Clone, Debug)]
pub enum Out {
    /// value components (limbs, flags) flattened
    Val(Vec<u64>),
    /// option/result reported failure
    None,
    /// documented panic
    Panic,
}

impl Out {
    pub fn v(x: &[u64]) -> Out {
        Out::Val(x.to_vec())
    }
    pub fn v2(x: &[u64], flag: u64) -> Out {
        let mut v = x.to_vec();
        v.push(flag);
        Out::Val(v)
    }
    pub fn opt(some: bool, x: &[u64]) -> Out {
        if some { Out::Val(x.to_vec()) } else { Out::None }
    }
    pub fn show(&self) -> String {
        match self {
            Out::Val(v) => hex(v),
            Out::None => "none".into(),
            Out::Panic => "panic".into(),
        }
    }
}

pub struct Case<'a> {
    pub l: &'a mut Local,
    pub prop: &'static str,
    pub family: &'static str,
    pub width: &'a str,
    pub inputs: &'a [&'a [u64]],
    pub extra: Option<String>,
    group_ref: Option<(&'static str, Out)>,
}

impl<'a> Case<'a> {
    pub fn new(
        l: &'a mut Local,
        prop: &'static str,
        family: &'static str,
        width: &'a str,
        inputs: &'a [&'a [u64]],
    ) -> Self {
        l.cases += 1;
        if l.samples.is_empty() {
            l.samples.push(format!(
                "{family} {width} inputs={}",
                inputs.iter().map(|x| hex(x)).collect::<Vec<_>>().join(" ")
            ));
        }
        Case { l, prop, family, width, inputs, extra: None, group_ref: None }
    }

    pub fn group(&mut self) {
        self.group_ref = None;
    }

    fn mk(&self, props: Vec<&'static str>, form: String, class: &str, expected: String, got: String) -> Failure {
        let mut inputs: Vec<String> = self.inputs.iter().map(|x| hex(x)).collect();
        if let Some(e) = &self.extra {
            inputs.push(e.clone());
        }
        Failure {
            props,
            family: self.family,
            form,
            class: class.to_string(),
            width: self.width.to_string(),
            inputs,
            expected,
            got,
        }
    }

    /// Compare one form's outcome with the oracle's, and with the first form of the current group (C15).
    pub fn check(&mut self, form: &'static str, class: &str, expected: &Out, got: Result<Out, String>) {
        self.l.form(form);
        let (g, pmsg) = match got {
            Ok(o) => (o, String::new()),
            Err(m) => (Out::Panic, m),
        };
        if &g != expected {
            let totality = matches!(g, Out::Panic) || matches!(expected, Out::Panic);
            let props = if totality { vec![self.prop, "C11"] } else { vec![self.prop] };
            let got_s = if pmsg.is_empty() { g.show() } else { format!("panic: {pmsg}") };
            let f = self.mk(props, form.to_string(), class, expected.show(), got_s);
            self.l.fail(f);
        }
        match &self.group_ref {
            None => self.group_ref = Some((form, g)),
            Some((rf, ro)) => {
                if self.l.count_pairs {
                    *self.l.pairs.entry((*rf, form)).or_insert(0) += 1;
                }
                if ro != &g {
                    let f = self.mk(
                        vec!["C15"],
                        format!("{rf}~{form}"),
                        class,
                        format!("{rf} -> {}", ro.show()),
                        format!("{form} -> {}", g.show()),
                    );
                    self.l.fail(f);
                }
            }
        }
    }

    /// totality only: the call must not panic (result content unspecified)
    pub fn total<T>(&mut self, form: &'static str, class: &str, got: Result<T, String>) {
        self.l.form(form);
        if let Err(m) = got {
            let f = self.mk(vec![self.prop, "C11"], form.to_string(), class, "no panic".into(), format!("panic: {m}"));
            self.l.fail(f);
        }
    }

    /// boolean assertion with explanation
    pub fn assert(&mut self, form: &'static str, class: &str, ok: bool, expected: impl FnOnce() -> (String, String)) {
        self.l.form(form);
        if !ok {
            let (e, g) = expected();
            let f = self.mk(vec![self.prop], form.to_string(), class, e, g);
            self.l.fail(f);
        }
    }
}
