//! C03 — multiplication and squaring return the exact product for all widths (engine E1).
use crypto_bigint::subtle::CtOption;
use crypto_bigint::{
    BoxedUint, Checked, CheckedMul, ConstCtOption, Uint, WideningMul, Wrapping, WrappingMul,
};
use num_bigint::BigUint;
use num_traits::Zero;
use vcommon::*;

const P: &str = "C03";

fn uopt<const N: usize>(o: CtOption<Uint<N>>) -> Out {
    match Option::<Uint<N>>::from(o) {
        Some(x) => Out::Val(w(&x)),
        None => Out::None,
    }
}
fn ucopt<const N: usize>(o: ConstCtOption<Uint<N>>) -> Out {
    match Option::<Uint<N>>::from(o) {
        Some(x) => Out::Val(w(&x)),
        None => Out::None,
    }
}
fn bopt(o: CtOption<BoxedUint>) -> Out {
    match Option::<BoxedUint>::from(o) {
        Some(x) => Out::Val(bw(&x)),
        None => Out::None,
    }
}

// ---------------------------------------------------------------------------------------------
// Oracle-side classifier: which (level, sign case) of the Karatsuba recursion does an input hit?
// Pure arithmetic on the inputs (split in halves, compare) — no crate code.
static REL: [[&str; 9]; 5] = [
    ["k128:x0<x1,y1<y0", "k128:x0<x1,y1=y0", "k128:x0<x1,y1>y0", "k128:x0=x1,y1<y0", "k128:x0=x1,y1=y0", "k128:x0=x1,y1>y0", "k128:x0>x1,y1<y0", "k128:x0>x1,y1=y0", "k128:x0>x1,y1>y0"],
    ["k64:x0<x1,y1<y0", "k64:x0<x1,y1=y0", "k64:x0<x1,y1>y0", "k64:x0=x1,y1<y0", "k64:x0=x1,y1=y0", "k64:x0=x1,y1>y0", "k64:x0>x1,y1<y0", "k64:x0>x1,y1=y0", "k64:x0>x1,y1>y0"],
    ["k32:x0<x1,y1<y0", "k32:x0<x1,y1=y0", "k32:x0<x1,y1>y0", "k32:x0=x1,y1<y0", "k32:x0=x1,y1=y0", "k32:x0=x1,y1>y0", "k32:x0>x1,y1<y0", "k32:x0>x1,y1=y0", "k32:x0>x1,y1>y0"],
    ["k16:x0<x1,y1<y0", "k16:x0<x1,y1=y0", "k16:x0<x1,y1>y0", "k16:x0=x1,y1<y0", "k16:x0=x1,y1=y0", "k16:x0=x1,y1>y0", "k16:x0>x1,y1<y0", "k16:x0>x1,y1=y0", "k16:x0>x1,y1>y0"],
    ["kboxed:x0<x1,y1<y0", "kboxed:x0<x1,y1=y0", "kboxed:x0<x1,y1>y0", "kboxed:x0=x1,y1<y0", "kboxed:x0=x1,y1=y0", "kboxed:x0=x1,y1>y0", "kboxed:x0>x1,y1<y0", "kboxed:x0>x1,y1=y0", "kboxed:x0>x1,y1>y0"],
];

fn cmp_limbs(a: &[u64], b: &[u64]) -> usize {
    for i in (0..a.len()).rev() {
        if a[i] != b[i] {
            return if a[i] < b[i] { 0 } else { 2 };
        }
    }
    1
}
fn abs_diff(a: &[u64], b: &[u64]) -> Limbs {
    let (hi, lo) = if cmp_limbs(a, b) == 0 { (b, a) } else { (a, b) };
    let mut out = vec![0u64; a.len()];
    let mut borrow = 0u64;
    for i in 0..a.len() {
        let (d, b1) = hi[i].overflowing_sub(lo[i]);
        let (d, b2) = d.overflowing_sub(borrow);
        out[i] = d;
        borrow = (b1 | b2) as u64;
    }
    out
}
/// fixed-width recursion: sizes 128,64,32,16 split; 8 is schoolbook
fn classify_fixed(x: &[u64], y: &[u64], l: &mut Local) {
    let n = x.len();
    let row = match n {
        128 => 0,
        64 => 1,
        32 => 2,
        16 => 3,
        _ => return,
    };
    let h = n / 2;
    let (x0, x1) = x.split_at(h);
    let (y0, y1) = y.split_at(h);
    let rx = cmp_limbs(x0, x1);
    let ry = cmp_limbs(y1, y0);
    l.class(REL[row][rx * 3 + ry]);
    classify_fixed(x0, y0, l);
    classify_fixed(x1, y1, l);
    classify_fixed(&abs_diff(x0, x1), &abs_diff(y1, y0), l);
}
/// boxed recursion (size rule transcribed from the documentation of the thresholds: start >= 32, reduce while > 24)
fn classify_boxed(x: &[u64], y: &[u64], l: &mut Local, depth: usize) {
    let overlap = x.len().min(y.len());
    let size = overlap & !1;
    if size <= 24 || depth > 3 {
        return;
    }
    let h = size / 2;
    let (x0, x1) = x[..size].split_at(h);
    let (y0, y1) = y[..size].split_at(h);
    l.class(REL[4][cmp_limbs(x0, x1) * 3 + cmp_limbs(y1, y0)]);
    if x.len() > size || y.len() > size {
        l.class("kboxed:trailing_limbs");
    }
    classify_boxed(x0, y0, l, depth + 1);
    classify_boxed(x1, y1, l, depth + 1);
    classify_boxed(&abs_diff(x0, x1), &abs_diff(y1, y0), l, depth + 1);
}

// ---------------------------------------------------------------------------------------------
// operand sets

/// Block-granular RUNS: piecewise-constant over blocks of `blk` limbs (run boundaries at every block boundary,
/// so the half and quarter points of every Karatsuba level are included), block symbols Z, ONES, G1-pattern, ONE.
fn block_runs(n: usize, blk: usize, r: usize, seed: u64, nsym: usize) -> Vec<Limbs> {
    let nb = n / blk;
    let (g1, g2) = generic_limbs(seed);
    let syms: Vec<Limbs> = vec![
        vec![0; blk],
        vec![MAX; blk],
        (0..blk).map(|i| if i % 2 == 0 { g1 } else { g2 }.rotate_left(i as u32)).collect(),
        {
            let mut v = vec![0; blk];
            v[0] = 1;
            v
        },
        {
            let mut v = vec![MAX; blk];
            v[0] = MAX - 1;
            v
        },
    ];
    let idx: Vec<u64> = (0..nsym.min(syms.len()) as u64).collect();
    let pat = runs(nb, &idx, r);
    pat.into_iter().map(|p| p.iter().flat_map(|&s| syms[s as usize].iter().copied()).collect()).collect()
}

fn mul_operands(n: usize, ctx: &Ctx) -> Vec<Limbs> {
    let th = ctx.thorough();
    let mut v: Vec<Limbs> = if n <= 2 {
        full(n, &l9())
    } else if n <= 4 {
        full(n, &l5())
    } else if n <= 12 {
        let mut v = runs(n, &l5(), if th { 3 } else { 2 });
        v.extend(runs(n, &l3(), 3));
        v
    } else {
        // Karatsuba widths
        let blk = 8.min(n / 2);
        let mut v = block_runs(n, blk, if th { 3 } else { 2 }, ctx.seed, if th { 5 } else { 4 });
        if n <= 32 || th {
            v.extend(runs(n, &l3(), 2));
        }
        v
    };
    if n > 2 {
        let (g1, g2) = generic_limbs(ctx.seed);
        v.push((0..n).map(|i| if i % 2 == 0 { g1 } else { g2 }.rotate_left(i as u32)).collect());
        v.push((0..n).map(|i| if i % 2 == 0 { 0 } else { MAX }).collect());
        // single set bits at a few structural positions
        for j in [0usize, 63, 64 * (n / 2) - 1, 64 * (n / 2), 64 * n - 1] {
            let mut s = vec![0u64; n];
            s[j / 64] = 1 << (j % 64);
            v.push(s);
        }
    }
    dedup(v)
}

type WidenFn<'a, const N: usize, const M: usize> = Option<&'a (dyn Fn(&Uint<N>, &Uint<M>) -> Vec<Vec<u64>> + Sync)>;
type SquareWidenFn<'a, const N: usize> = Option<&'a (dyn Fn(&Uint<N>) -> Vec<Vec<u64>> + Sync)>;

fn replay_inputs(ctx: &Ctx) -> Option<(Limbs, Limbs)> {
    let r = ctx.replay.as_ref()?;
    let ins = r["inputs"].as_array()?;
    let a = parse_hex_limbs(ins.first()?.as_str()?);
    let b = ins.get(1).and_then(|v| v.as_str()).map(parse_hex_limbs).unwrap_or_default();
    Some((a, b))
}

fn fam_mul<const N: usize, const M: usize>(ctx: &Ctx, widen: WidenFn<N, M>) {
    let fam = "uint_mul";
    if !ctx.want(fam) {
        return;
    }
    let wname = format!("Uint<{N}>x<{M}>");
    if let Some(r) = &ctx.replay {
        if r["width"].as_str() != Some(&wname) {
            return;
        }
    }
    let oa = mul_operands(N, ctx);
    let ob = if M == N { oa.clone() } else { mul_operands(M, ctx) };
    let k = ob.len();
    let body = |a: &Limbs, b: &Limbs, l: &mut Local| {
        let ins: [&[u64]; 2] = [a, b];
        let mut cs = Case::new(l, P, fam, &wname, &ins);
        let (ua, ub) = (u::<N>(a), u::<M>(b));
        let (ba, bb) = (to_big(a), to_big(b));
        let prod = &ba * &bb;
        let full_ = from_big(&prod, N + M);
        let (lo, hi) = full_.split_at(N);
        let ovf = hi.iter().any(|&x| x != 0);
        if ovf {
            cs.l.class("mul_overflow");
        }
        cs.l.nontrivial += (!ba.is_zero() && !bb.is_zero() && prod.bits() > 64) as u64;
        if N == M {
            classify_fixed(a, b, cs.l);
        }
        // full product, split and widening shapes
        cs.check("Uint::split_mul", "any", &Out::v(&full_), guard(|| {
            let (l_, h_) = ua.split_mul(&ub);
            let mut v = w(&l_);
            v.extend(w(&h_));
            Out::Val(v)
        }));
        if let Some(f) = widen {
            match guard(|| f(&ua, &ub)) {
                Ok(rs) => {
                    for (i, r) in rs.into_iter().enumerate() {
                        let name = ["Uint::widening_mul", "Uint:WideningMul(&)", "Uint:WideningMul(val)"][i];
                        cs.check(name, "any", &Out::v(&full_), Ok(Out::Val(r)));
                    }
                }
                Err(m) => cs.check("Uint::widening_mul", "any", &Out::v(&full_), Err(m)),
            }
        }
        cs.group();
        let wr = Out::v(lo);
        cs.check("Uint::wrapping_mul", "any", &wr, guard(|| Out::v(&w(&ua.wrapping_mul(&ub)))));
        cs.group();
        let sat = if ovf { vec![MAX; N] } else { lo.to_vec() };
        cs.check("Uint::saturating_mul", "any", &Out::v(&sat), guard(|| Out::v(&w(&ua.saturating_mul(&ub)))));
        cs.group();
        let ck = Out::opt(!ovf, lo);
        cs.check("Uint:CheckedMul", "any", &ck, guard(|| uopt(CheckedMul::checked_mul(&ua, &ub))));
        cs.group();
        let pk = if ovf { Out::Panic } else { Out::v(lo) };
        cs.check("&Uint*&Uint", "any", &pk, guard(|| Out::v(&w(&(&ua * &ub)))));
        cs.check("Uint*Uint", "any", &pk, guard(|| Out::v(&w(&(ua * ub)))));
        cs.check("Uint*&Uint", "any", &pk, guard(|| Out::v(&w(&(ua * &ub)))));
        cs.check("&Uint*Uint", "any", &pk, guard(|| Out::v(&w(&(&ua * ub)))));
        cs.check("Uint*=Uint", "any", &pk, guard(|| {
            let mut x = ua;
            x *= ub;
            Out::v(&w(&x))
        }));
        cs.check("Uint*=&Uint", "any", &pk, guard(|| {
            let mut x = ua;
            x *= &ub;
            Out::v(&w(&x))
        }));
    };
    if let Some((a, b)) = replay_inputs(ctx) {
        ctx.seq(fam, &wname, |l| body(&a, &b, l));
        return;
    }
    ctx.par_for(fam, &wname, oa.len() * k, |i, l| body(&oa[i / k], &ob[i % k], l));
}

/// equal-width-only forms: trait WrappingMul, Wrapping / Checked wrappers, and squaring
fn fam_eq<const N: usize>(ctx: &Ctx, sq_widen: SquareWidenFn<N>) {
    let fam = "uint_mul_eq";
    let wname = format!("Uint<{N}>");
    if let Some(r) = &ctx.replay {
        if r["width"].as_str() != Some(&wname) {
            return;
        }
    }
    let oa = mul_operands(N, ctx);
    let k = oa.len();
    if ctx.want(fam) {
        let body = |a: &Limbs, b: &Limbs, l: &mut Local| {
            let ins: [&[u64]; 2] = [a, b];
            let mut cs = Case::new(l, P, fam, &wname, &ins);
            let (ua, ub) = (u::<N>(a), u::<N>(b));
            let prod = to_big(a) * to_big(b);
            let lo = from_big(&prod, N);
            let ovf = !fits(&prod, N);
            cs.l.nontrivial += (prod.bits() > 64) as u64;
            let wr = Out::v(&lo);
            cs.check("Uint::wrapping_mul", "any", &wr, guard(|| Out::v(&w(&ua.wrapping_mul(&ub)))));
            cs.check("Uint:WrappingMul", "any", &wr, guard(|| Out::v(&w(&WrappingMul::wrapping_mul(&ua, &ub)))));
            cs.check("Wrapping<Uint>*", "any", &wr, guard(|| Out::v(&w(&(Wrapping(ua) * Wrapping(ub)).0))));
            cs.check("Wrapping<Uint>*&", "any", &wr, guard(|| Out::v(&w(&(Wrapping(ua) * &Wrapping(ub)).0))));
            cs.check("&Wrapping<Uint>*", "any", &wr, guard(|| Out::v(&w(&(&Wrapping(ua) * Wrapping(ub)).0))));
            cs.check("&Wrapping<Uint>*&", "any", &wr, guard(|| Out::v(&w(&(&Wrapping(ua) * &Wrapping(ub)).0))));
            cs.check("Wrapping<Uint>*=", "any", &wr, guard(|| {
                let mut x = Wrapping(ua);
                x *= Wrapping(ub);
                Out::v(&w(&x.0))
            }));
            cs.check("Wrapping<Uint>*=&", "any", &wr, guard(|| {
                let mut x = Wrapping(ua);
                x *= &Wrapping(ub);
                Out::v(&w(&x.0))
            }));
            cs.group();
            let ck = Out::opt(!ovf, &lo);
            cs.check("Uint:CheckedMul", "any", &ck, guard(|| uopt(ua.checked_mul(&ub))));
            cs.check("Checked<Uint>*", "any", &ck, guard(|| uopt((Checked::new(ua) * Checked::new(ub)).0)));
            cs.check("Checked<Uint>*&", "any", &ck, guard(|| uopt((Checked::new(ua) * &Checked::new(ub)).0)));
            cs.check("&Checked<Uint>*", "any", &ck, guard(|| uopt((&Checked::new(ua) * Checked::new(ub)).0)));
            cs.check("&Checked<Uint>*&", "any", &ck, guard(|| uopt((&Checked::new(ua) * &Checked::new(ub)).0)));
            cs.check("Checked<Uint>*=", "any", &ck, guard(|| {
                let mut x = Checked::new(ua);
                x *= Checked::new(ub);
                uopt(x.0)
            }));
            cs.check("Checked<Uint>*=&", "any", &ck, guard(|| {
                let mut x = Checked::new(ua);
                x *= &Checked::new(ub);
                uopt(x.0)
            }));
        };
        if let Some((a, b)) = replay_inputs(ctx) {
            if ctx.replay.as_ref().unwrap()["family"] == fam {
                ctx.seq(fam, &wname, |l| body(&a, &b, l));
            }
        } else {
            // the wrapper forms are cheap to state but add nothing width-specific: use a sub-product for wide N
            let stride = if N >= 64 && !ctx.thorough() { 7 } else { 1 };
            let idx: Vec<usize> = (0..k * k).step_by(stride).collect();
            ctx.par_for(fam, &wname, idx.len(), |i, l| body(&oa[idx[i] / k], &oa[idx[i] % k], l));
        }
    }
    // ---- squaring (unary): larger operand set
    let fam = "uint_square";
    if !ctx.want(fam) {
        return;
    }
    let mut un = oa.clone();
    if N <= 16 {
        un.extend(bits(N));
        un.extend(operands(N, ctx.seed, true));
    } else {
        un.extend(runs(N, &l5(), 2));
        un.extend(block_runs(N, 8, 3, ctx.seed, 5));
    }
    let un = dedup(un);
    let body = |a: &Limbs, l: &mut Local| {
        let ins: [&[u64]; 1] = [a];
        let mut cs = Case::new(l, P, fam, &wname, &ins);
        let ua = u::<N>(a);
        let ba = to_big(a);
        let sq = &ba * &ba;
        let full_ = from_big(&sq, 2 * N);
        let (lo, hi) = full_.split_at(N);
        let ovf = hi.iter().any(|&x| x != 0);
        cs.l.nontrivial += (sq.bits() > 64) as u64;
        // squaring equals multiplying the value by itself (differential, no oracle) and the oracle
        let exp = Out::v(&full_);
        cs.check("Uint::square_wide", "any", &exp, guard(|| {
            let (l_, h_) = ua.square_wide();
            let mut v = w(&l_);
            v.extend(w(&h_));
            Out::Val(v)
        }));
        cs.check("Uint::split_mul(self,self)", "any", &exp, guard(|| {
            let (l_, h_) = ua.split_mul(&ua);
            let mut v = w(&l_);
            v.extend(w(&h_));
            Out::Val(v)
        }));
        if let Some(f) = sq_widen {
            match guard(|| f(&ua)) {
                Ok(rs) => {
                    for (i, r) in rs.into_iter().enumerate() {
                        cs.check(["Uint::widening_square", "Uint::square"][i], "any", &exp, Ok(Out::Val(r)));
                    }
                }
                Err(m) => cs.check("Uint::widening_square", "any", &exp, Err(m)),
            }
        }
        cs.group();
        cs.check("Uint::wrapping_square", "any", &Out::v(lo), guard(|| Out::v(&w(&ua.wrapping_square()))));
        cs.check("Uint::wrapping_mul(self,self)", "any", &Out::v(lo), guard(|| Out::v(&w(&ua.wrapping_mul(&ua)))));
        cs.group();
        cs.check("Uint::checked_square", "any", &Out::opt(!ovf, lo), guard(|| ucopt(ua.checked_square())));
        cs.check("Uint:CheckedMul(self,self)", "any", &Out::opt(!ovf, lo), guard(|| uopt(ua.checked_mul(&ua))));
        cs.group();
        let sat = if ovf { vec![MAX; N] } else { lo.to_vec() };
        cs.check("Uint::saturating_square", "any", &Out::v(&sat), guard(|| Out::v(&w(&ua.saturating_square()))));
        cs.check("Uint::saturating_mul(self,self)", "any", &Out::v(&sat), guard(|| Out::v(&w(&ua.saturating_mul(&ua)))));
    };
    if let Some((a, _)) = replay_inputs(ctx) {
        if ctx.replay.as_ref().unwrap()["family"] == fam {
            ctx.seq(fam, &wname, |l| body(&a, l));
        }
        return;
    }
    ctx.par_for(fam, &wname, un.len(), |i, l| body(&un[i], l));
}

// ---------------------------------------------------------------------------------------------
// BoxedUint

fn boxed_operands(n: usize, ctx: &Ctx) -> Vec<Limbs> {
    let th = ctx.thorough();
    let mut v = if n <= 2 {
        full(n, &l5())
    } else if n <= 8 {
        runs(n, &l5(), 2)
    } else if n < 24 {
        runs(n, &l3(), 2)
    } else {
        // Karatsuba range: boundaries at every limb for two runs of {0,MAX}, plus halves/quarters with generic blocks
        let mut v = if n > 70 && !th { runs(n, &[0, MAX], 2) } else { runs(n, &l3(), 2) };
        if th && n <= 70 {
            v.extend(runs(n, &l5(), 2));
        }
        let (g1, g2) = generic_limbs(ctx.seed);
        let size = n & !1;
        for cut in [size / 4, size / 2, 3 * size / 4, size] {
            for (lo_sym, hi_sym) in [(0u64, 1u64), (1, 0), (2, 0), (0, 2), (2, 1), (1, 2), (2, 3), (3, 2)] {
                let sym = |s: u64, i: usize| match s {
                    0 => 0,
                    1 => MAX,
                    2 => g1.rotate_left(i as u32),
                    _ => g2.rotate_left(3 * i as u32),
                };
                v.push((0..n).map(|i| if i < cut { sym(lo_sym, i) } else { sym(hi_sym, i) }).collect());
            }
        }
        v
    };
    let (g1, g2) = generic_limbs(ctx.seed);
    v.push((0..n).map(|i| if i % 2 == 0 { g1 } else { g2 }.rotate_left(i as u32)).collect());
    dedup(v)
}

fn boxed_mul_case(a: &Limbs, b: &Limbs, l: &mut Local) {
    let fam = "boxed_mul";
    let (la, lb) = (a.len(), b.len());
    let wname = format!("Boxed<{la}>x<{lb}>");
    let ins: [&[u64]; 2] = [a, b];
    let mut cs = Case::new(l, P, fam, &wname, &ins);
    let (xa, xb) = (bx(a), bx(b));
    let prod = to_big(a) * to_big(b);
    let full_ = from_big(&prod, la + lb);
    let lo = &full_[..la];
    let ovf = !fits(&prod, la);
    cs.l.nontrivial += (prod.bits() > 64) as u64;
    if la.min(lb) >= 32 {
        classify_boxed(a, b, cs.l, 0);
    }
    let exp = Out::v(&full_);
    cs.check("Boxed::mul", "any", &exp, guard(|| Out::v(&bw(&xa.mul(&xb)))));
    cs.check("Boxed:WideningMul(&)", "any", &exp, guard(|| Out::v(&bw(&WideningMul::widening_mul(&xa, &xb)))));
    cs.check("Boxed:WideningMul(val)", "any", &exp, guard(|| Out::v(&bw(&WideningMul::widening_mul(&xa, xb.clone())))));
    cs.group();
    let wr = Out::v(lo);
    cs.check("Boxed::wrapping_mul", "any", &wr, guard(|| Out::v(&bw(&xa.wrapping_mul(&xb)))));
    cs.check("Boxed:WrappingMul", "any", &wr, guard(|| Out::v(&bw(&WrappingMul::wrapping_mul(&xa, &xb)))));
    cs.check("Wrapping<Boxed>*", "any", &wr, guard(|| Out::v(&bw(&(Wrapping(xa.clone()) * Wrapping(xb.clone())).0))));
    cs.check("Wrapping<Boxed>*=", "any", &wr, guard(|| {
        let mut x = Wrapping(xa.clone());
        x *= Wrapping(xb.clone());
        Out::v(&bw(&x.0))
    }));
    cs.check("Wrapping<Boxed>*=&", "any", &wr, guard(|| {
        let mut x = Wrapping(xa.clone());
        x *= &Wrapping(xb.clone());
        Out::v(&bw(&x.0))
    }));
    cs.group();
    cs.check("Boxed:CheckedMul", "any", &Out::opt(!ovf, lo), guard(|| bopt(xa.checked_mul(&xb))));
    // the panicking operators: result in the receiver's precision, panic exactly on overflow — all forms alike
    cs.group();
    let pk = if ovf { Out::Panic } else { Out::v(lo) };
    let cls = if ovf { "overflow" } else { "fits" };
    cs.check("&Boxed*&Boxed", cls, &pk, guard(|| Out::v(&bw(&(&xa * &xb)))));
    cs.check("Boxed*Boxed", cls, &pk, guard(|| Out::v(&bw(&(xa.clone() * xb.clone())))));
    cs.check("Boxed*&Boxed", cls, &pk, guard(|| Out::v(&bw(&(xa.clone() * &xb)))));
    cs.check("&Boxed*Boxed", cls, &pk, guard(|| Out::v(&bw(&(&xa * xb.clone())))));
    cs.check("Boxed*=Boxed", cls, &pk, guard(|| {
        let mut x = xa.clone();
        x *= xb.clone();
        Out::v(&bw(&x))
    }));
    cs.check("Boxed*=&Boxed", cls, &pk, guard(|| {
        let mut x = xa.clone();
        x *= &xb;
        Out::v(&bw(&x))
    }));
}

fn boxed_square_case(a: &Limbs, l: &mut Local) {
    let fam = "boxed_square";
    let la = a.len();
    let wname = format!("Boxed<{la}>");
    let ins: [&[u64]; 1] = [a];
    let mut cs = Case::new(l, P, fam, &wname, &ins);
    let xa = bx(a);
    let ba = to_big(a);
    let sq = &ba * &ba;
    cs.l.nontrivial += (sq.bits() > 64) as u64;
    let exp = Out::v(&from_big(&sq, 2 * la));
    cs.check("Boxed::square", "any", &exp, guard(|| Out::v(&bw(&xa.square()))));
    cs.check("Boxed::mul(self,self)", "any", &exp, guard(|| Out::v(&bw(&xa.mul(&xa)))));
}

fn fam_boxed(ctx: &Ctx) {
    if let Some((a, b)) = replay_inputs(ctx) {
        match ctx.replay.as_ref().unwrap()["family"].as_str() {
            Some("boxed_mul") => ctx.seq("boxed_mul", "replay", |l| boxed_mul_case(&a, &b, l)),
            Some("boxed_square") => ctx.seq("boxed_square", "replay", |l| boxed_square_case(&a, l)),
            _ => {}
        }
        return;
    }
    let th = ctx.thorough();
    let eq_lens: Vec<usize> = if th {
        (1..=140).collect()
    } else {
        let mut v: Vec<usize> = (1..=8).collect();
        v.extend([23, 24, 25, 26, 31, 32, 33, 34, 47, 48, 49, 50, 63, 64, 65, 66, 127, 128, 129, 130]);
        v
    };
    let maxlen = 140;
    // thorough: every length 1..=140 is visited; from 24 limbs on the operand sets are stride-thinned to 500 values
    // (the complete products took 26 min)
    let sets: Vec<Vec<Limbs>> = (0..=maxlen).map(|n| if n == 0 || (!th && !eq_lens.contains(&n) && ![24, 34, 35, 48, 49, 64, 65, 70].contains(&n)) { vec![] } else if th && n >= 24 { thin(boxed_operands(n, ctx), 500) } else { boxed_operands(n, ctx) }).collect();
    let mut pairs: Vec<(usize, usize)> = eq_lens.iter().map(|&n| (n, n)).collect();
    // unequal lengths around the Karatsuba thresholds (trailing-limb paths), both orders
    let ua: Vec<usize> = if th { (30..=37).collect() } else { vec![31, 32, 33, 34, 35] };
    let ub: Vec<usize> = if th { vec![1, 2, 16, 24, 25, 31, 32, 33, 34, 35, 36, 37, 47, 48, 49, 50, 63, 64, 65, 66, 70] } else { vec![1, 24, 32, 33, 34, 35, 48, 49, 64, 65] };
    for &x in &ua {
        for &y in &ub {
            if x != y {
                pairs.push((x, y));
                pairs.push((y, x));
            }
        }
    }
    // small unequal
    for x in 1..=4 {
        for y in 1..=4 {
            if x != y {
                pairs.push((x, y));
            }
        }
    }
    pairs.sort();
    pairs.dedup();
    if ctx.want("boxed_mul") {
        for (la, lb) in pairs {
            let (sa, sb) = (&sets[la], &sets[lb]);
            if sa.is_empty() || sb.is_empty() {
                continue;
            }
            let k = sb.len();
            // wide x wide: the complete product of the (smaller) sets
            ctx.par_for("boxed_mul", &format!("Boxed<{la}>x<{lb}>"), sa.len() * k, |i, l| boxed_mul_case(&sa[i / k], &sb[i % k], l));
        }
    }
    if ctx.want("boxed_square") {
        for &n in &eq_lens {
            let mut un = sets[n].clone();
            if n >= 24 {
                un.extend(runs(n, &l3(), 2));
                un.extend(runs(n, &[0, MAX], 3).into_iter().step_by(if th { 1 } else { 5 }));
            } else {
                un.extend(bits(n));
            }
            let un = dedup(un);
            ctx.par_for("boxed_square", &format!("Boxed<{n}>"), un.len(), |i, l| boxed_square_case(&un[i], l));
        }
    }
}

macro_rules! widen {
    ($n:literal, $m:literal) => {
        Some(&|a: &Uint<$n>, b: &Uint<$m>| -> Vec<Vec<u64>> {
            vec![w(&a.widening_mul(b)), w(&WideningMul::widening_mul(a, b)), w(&WideningMul::widening_mul(a, *b))]
        })
    };
}
macro_rules! sqw {
    ($n:literal) => {
        Some(&|a: &Uint<$n>| -> Vec<Vec<u64>> { vec![w(&a.widening_square()), w(&a.square())] })
    };
}
macro_rules! eqw {
    ($ctx:expr, $($n:literal),*) => { $( fam_mul::<$n, $n>($ctx, widen!($n, $n)); fam_eq::<$n>($ctx, sqw!($n)); )* };
}

fn main() {
    let ctx = Ctx::from_args(P, "exploration");
    ctx.set_rule("E1: complete product of operand generators per width pair (FULL(n,L9) n<=2, FULL(n,L5) n<=4, RUNS(n,L5/L3,2-3) n<=12, \
        block-granular RUNS with boundaries at every 8-limb block for the Karatsuba widths 16/32/64/128, boxed: RUNS({0,MAX},2) at every limb + half/quarter cuts with generic blocks) x every form; \
        squaring over a larger unary set (+BITS). Non-trivial: product wider than one limb. class_hits lists the Karatsuba (level, sign case) pairs reached, computed by an oracle-side classifier.");
    ctx.assume("limb values outside the stated alphabets are not explored");
    ctx.assume("oracle = num-bigint multiplication");
    let ctx = &ctx;
    eqw!(ctx, 1, 2, 3, 4, 5, 6, 7, 8, 9, 10, 11, 12, 16, 32);
    if ctx.thorough() || true {
        eqw!(ctx, 64, 128);
    }
    // mixed widths
    fam_mul::<1, 2>(ctx, widen!(1, 2));
    fam_mul::<2, 1>(ctx, widen!(2, 1));
    fam_mul::<2, 4>(ctx, widen!(2, 4));
    fam_mul::<4, 2>(ctx, widen!(4, 2));
    fam_mul::<3, 5>(ctx, widen!(3, 5));
    fam_mul::<5, 3>(ctx, widen!(5, 3));
    fam_mul::<4, 8>(ctx, widen!(4, 8));
    fam_mul::<8, 4>(ctx, widen!(8, 4));
    fam_mul::<8, 16>(ctx, None);
    fam_mul::<16, 8>(ctx, None);
    fam_mul::<16, 32>(ctx, None);
    fam_mul::<32, 16>(ctx, None);
    fam_boxed(ctx);
    let _ = BigUint::zero();
    std::process::exit(ctx.finish());
}
