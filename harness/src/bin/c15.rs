#![allow(long_running_const_eval)]
//! C15 — all routes to the same operation give bit-identical results: the pair classes that the per-family
//! differential layer (forms of one family sharing a group) does not cover by itself:
//!   (1) Uint<N>  <->  BoxedUint of 64*N bits for N in {1,2,3,4,8,16,32,64}, incl. the documented result precision;
//!   (2) values computed in a const context  <->  the same expression at run time (inputs behind black_box).
use crypto_bigint::modular::{MontyForm, MontyParams};
use crypto_bigint::{BoxedUint, CheckedAdd, CheckedMul, CheckedSub, ConstChoice, Gcd, Int, Limb, NonZero, Odd, Uint, U256, U64};
use std::hint::black_box;
use vcommon::*;

const P: &str = "C15";

fn diff(l: &mut Local, fam: &'static str, pair: &'static str, width: &str, inputs: Vec<String>, a: Result<Vec<u64>, String>, b: Result<Vec<u64>, String>) {
    l.form(pair);
    if l.count_pairs {
        *l.pairs.entry((pair, "")).or_insert(0) += 1;
    }
    let same = match (&a, &b) {
        (Ok(x), Ok(y)) => x == y,
        (Err(_), Err(_)) => true, // both panic (e.g. documented overflow): identical route behaviour
        _ => false,
    };
    if !same {
        l.fail(failure(&[P], fam, pair, "any", width.to_string(), inputs, format!("{a:?}"), format!("{b:?}")));
    }
}

fn bopt(o: crypto_bigint::subtle::CtOption<BoxedUint>, n: usize) -> Vec<u64> {
    match Option::<BoxedUint>::from(o) {
        Some(x) => {
            let mut v = vec![1];
            v.extend(bw(&x));
            v
        }
        None => vec![0; n + 1],
    }
}
fn uopt<const N: usize>(o: crypto_bigint::subtle::CtOption<Uint<N>>) -> Vec<u64> {
    match Option::<Uint<N>>::from(o) {
        Some(x) => {
            let mut v = vec![1];
            v.extend(w(&x));
            v
        }
        None => vec![0; N + 1],
    }
}
fn cat(a: Vec<u64>, b: Vec<u64>) -> Vec<u64> {
    let mut v = a;
    v.extend(b);
    v
}

fn operands(n: usize, ctx: &Ctx) -> Vec<Limbs> {
    let v = if n <= 2 { full(n, &l9()) } else if n <= 8 { runs(n, &l5(), 2) } else { runs(n, &l3(), 2) };
    let mut v = v;
    let (g1, g2) = generic_limbs(ctx.seed);
    v.push((0..n).map(|i| if i % 2 == 0 { g1 } else { g2 }.rotate_left(i as u32)).collect());
    thin(dedup(v), if ctx.thorough() { 400 } else if n >= 32 { 40 } else { 110 })
}

macro_rules! fixed_vs_boxed {
    ($ctx:expr, $n:literal, $with_gcd:expr) => {{
        let ctx: &Ctx = $ctx;
        let fam = "fixed_vs_boxed";
        if ctx.want(fam) {
            let wname = format!("Uint<{}>~Boxed<{}>", $n, 64 * $n);
            let ops = operands($n, ctx);
            let k = ops.len();
            ctx.par_for(fam, &wname, k * k, |i, l| {
                let (a, b) = (&ops[i / k], &ops[i % k]);
                let (ua, ub) = (u::<$n>(a), u::<$n>(b));
                let (xa, xb) = (bx(a), bx(b));
                l.cases += 1;
                l.nontrivial += (a != b) as u64;
                let inp = || vec![hex(a), hex(b)];
                macro_rules! d {
                    ($name:literal, $f:expr, $g:expr) => {
                        diff(l, fam, $name, &wname, inp(), guard(|| $f), guard(|| $g))
                    };
                }
                let prec = |x: &BoxedUint| x.bits_precision() as u64;
                d!("adc", { let (r, c) = ua.adc(&ub, Limb::ONE); cat(w(&r), vec![c.0, 64 * $n]) }, { let (r, c) = xa.adc(&xb, Limb::ONE); cat(bw(&r), vec![c.0, prec(&r)]) });
                d!("sbb", { let (r, c) = ua.sbb(&ub, Limb::ZERO); cat(w(&r), vec![c.0]) }, { let (r, c) = xa.sbb(&xb, Limb::ZERO); cat(bw(&r), vec![c.0]) });
                d!("wrapping_add", w(&ua.wrapping_add(&ub)), bw(&xa.wrapping_add(&xb)));
                d!("wrapping_sub", w(&ua.wrapping_sub(&ub)), bw(&xa.wrapping_sub(&xb)));
                d!("checked_add", uopt(ua.checked_add(&ub)), bopt(xa.checked_add(&xb), $n));
                d!("checked_sub", uopt(ua.checked_sub(&ub)), bopt(xa.checked_sub(&xb), $n));
                d!("operator +", w(&(ua + ub)), bw(&(&xa + &xb)));
                d!("operator -", w(&(ua - ub)), bw(&(&xa - &xb)));
                d!("wrapping_neg", w(&ua.wrapping_neg()), bw(&xa.wrapping_neg()));
                d!("split_mul/mul", { let (lo, hi) = ua.split_mul(&ub); cat(w(&lo), w(&hi)) }, { let r = xa.mul(&xb); cat(bw(&r), vec![]) });
                d!("mul precision", vec![128 * $n], vec![xa.mul(&xb).bits_precision() as u64]);
                d!("wrapping_mul", cat(w(&ua.wrapping_mul(&ub)), vec![64 * $n]), { let r = xa.wrapping_mul(&xb); cat(bw(&r), vec![prec(&r)]) });
                d!("checked_mul", uopt(CheckedMul::checked_mul(&ua, &ub)), bopt(xa.checked_mul(&xb), $n));
                d!("operator *", w(&(ua * ub)), bw(&(&xa * &xb)));
                d!("square_wide/square", { let (lo, hi) = ua.square_wide(); cat(w(&lo), w(&hi)) }, bw(&xa.square()));
                d!("bitand", w(&ua.bitand(&ub)), bw(&xa.bitand(&xb)));
                d!("bitor", w(&ua.bitor(&ub)), bw(&xa.bitor(&xb)));
                d!("bitxor", w(&ua.bitxor(&ub)), bw(&xa.bitxor(&xb)));
                d!("not", w(&ua.not()), bw(&xa.not()));
                d!("bits", vec![ua.bits() as u64, ua.bits_vartime() as u64], vec![xa.bits() as u64, xa.bits_vartime() as u64]);
                d!("leading_zeros", vec![ua.leading_zeros() as u64], vec![xa.leading_zeros() as u64]);
                d!("trailing_zeros", vec![ua.trailing_zeros() as u64, ua.trailing_zeros_vartime() as u64], vec![xa.trailing_zeros() as u64, xa.trailing_zeros_vartime() as u64]);
                d!("trailing_ones", vec![ua.trailing_ones() as u64, ua.trailing_ones_vartime() as u64], vec![xa.trailing_ones() as u64, xa.trailing_ones_vartime() as u64]);
                d!("cmp", vec![ua.cmp(&ub) as i8 as u64, (ua == ub) as u64], vec![xa.cmp(&xb) as i8 as u64, (xa == xb) as u64]);
                d!("to_be_bytes", ua.to_be_bytes_vec(), xa.to_be_bytes().to_vec().iter().map(|&b| b as u64).collect());
                d!("to_string_radix(10)", ua.to_string_radix_vartime(10).bytes().map(|b| b as u64).collect(), xa.to_string_radix_vartime(10).bytes().map(|b| b as u64).collect());
                d!("to_string_radix(16)", ua.to_string_radix_vartime(16).bytes().map(|b| b as u64).collect(), xa.to_string_radix_vartime(16).bytes().map(|b| b as u64).collect());
                d!("sqrt", cat(w(&ua.sqrt()), w(&ua.sqrt_vartime())), cat(bw(&xa.sqrt()), bw(&xa.sqrt_vartime())));
                // shifts by amounts taken from b's low bits (in range and out of range)
                for s in [b[0] as u32 % (64 * $n), 64 * $n - 1, 0, 64, 64 * $n, 64 * $n + 1] {
                    d!("overflowing_shl", { match Option::<Uint<$n>>::from(ua.overflowing_shl(s)) { Some(x) => cat(w(&x), vec![0]), None => cat(vec![0; $n], vec![1]) } }, { let (r, o) = xa.overflowing_shl(s); cat(bw(&r), vec![bool::from(o) as u64]) });
                    d!("overflowing_shr", { match Option::<Uint<$n>>::from(ua.overflowing_shr(s)) { Some(x) => cat(w(&x), vec![0]), None => cat(vec![0; $n], vec![1]) } }, { let (r, o) = xa.overflowing_shr(s); cat(bw(&r), vec![bool::from(o) as u64]) });
                    d!("wrapping_shl", w(&ua.wrapping_shl(s)), bw(&xa.wrapping_shl(s)));
                    d!("wrapping_shr_vartime", w(&ua.wrapping_shr_vartime(s)), bw(&xa.wrapping_shr_vartime(s)));
                    d!("shl (panicking)", w(&ua.shl(s)), bw(&xa.shl(s)));
                }
                if !is_zero(b) {
                    let (nz, nzb) = (NonZero::new(ub).unwrap(), NonZero::new(xb.clone()).unwrap());
                    d!("div_rem", { let (q, r) = ua.div_rem(&nz); cat(w(&q), w(&r)) }, { let (q, r) = xa.div_rem(&nzb); cat(bw(&q), bw(&r)) });
                    d!("div_rem_vartime", { let (q, r) = ua.div_rem_vartime(&nz); cat(w(&q), w(&r)) }, { let (q, r) = xa.div_rem_vartime(&nzb); cat(bw(&q), bw(&r)) });
                    d!("rem", w(&ua.rem(&nz)), bw(&xa.rem(&nzb)));
                    d!("rem_vartime", w(&ua.rem_vartime(&nz)), bw(&xa.rem_vartime(&nzb)));
                    d!("checked_div", uopt(ua.checked_div(&ub)), bopt(xa.checked_div(&xb), $n));
                    d!("add_mod", w(&ua.rem(&nz).add_mod(&ua.rem(&nz), &ub)), { let r = xa.rem(&nzb); bw(&r.add_mod(&r, &xb)) });
                    d!("sub_mod", w(&Uint::<$n>::ZERO.sub_mod(&ua.rem(&nz), &ub)), bw(&BoxedUint::zero_with_precision(64 * $n).sub_mod(&xa.rem(&nzb), &xb)));
                    d!("neg_mod", w(&ua.rem(&nz).neg_mod(&ub)), bw(&xa.rem(&nzb).neg_mod(&xb)));
                    d!("mul_mod_vartime/mul_mod(odd)", if b[0] & 1 == 1 { w(&ua.mul_mod_vartime(&ua, &nz)) } else { vec![] }, if b[0] & 1 == 1 { bw(&xa.mul_mod(&xa, &xb)) } else { vec![] });
                    if b[0] != 0 {
                        let nl = NonZero::new(Limb(b[0])).unwrap();
                        d!("div_rem_limb", { let (q, r) = ua.div_rem_limb(nl); cat(w(&q), vec![r.0]) }, { let (q, r) = xa.div_rem_limb(nl); cat(bw(&q), vec![r.0]) });
                        d!("rem_limb", vec![ua.rem_limb(nl).0], vec![xa.rem_limb(nl).0]);
                    }
                }
                d!("inv_mod2k", { let k = b[0] as u32 % (64 * $n + 1); match Option::<Uint<$n>>::from(ua.inv_mod2k(k)) { Some(x) => cat(vec![1], w(&x)), None => vec![0] } }, { let k = b[0] as u32 % (64 * $n + 1); let (x, c) = xa.inv_mod2k(k); if bool::from(c) { cat(vec![1], bw(&x)) } else { vec![0] } });
                if $with_gcd {
                    gcd_pair::<$n>(l, fam, &wname, a, b);
                }
            });
        }
    }};
}

trait ToBeVec {
    fn to_be_bytes_vec(&self) -> Vec<u64>;
}
impl<const N: usize> ToBeVec for Uint<N> {
    fn to_be_bytes_vec(&self) -> Vec<u64> {
        self.as_words().iter().rev().flat_map(|w| w.to_be_bytes()).map(|b| b as u64).collect()
    }
}

trait GcdPair<const N: usize> {
    fn run(l: &mut Local, fam: &'static str, wname: &str, a: &Limbs, b: &Limbs);
}
macro_rules! impl_gcd_pair {
    ($($n:literal),*) => {$(
        impl GcdPair<$n> for () {
            fn run(l: &mut Local, fam: &'static str, wname: &str, a: &Limbs, b: &Limbs) {
                let (ua, ub) = (u::<$n>(a), u::<$n>(b));
                let (xa, xb) = (bx(a), bx(b));
                diff(l, fam, "gcd", wname, vec![hex(a), hex(b)], guard(|| w(&ua.gcd(&ub))), guard(|| bw(&Gcd::gcd(&xa, &xb))));
                diff(l, fam, "gcd_vartime", wname, vec![hex(a), hex(b)], guard(|| w(&Gcd::gcd_vartime(&ua, &ub))), guard(|| bw(&Gcd::gcd_vartime(&xa, &xb))));
                if b[0] & 1 == 1 {
                    let (om, obm) = (Odd::new(ub).unwrap(), Odd::new(xb.clone()).unwrap());
                    diff(l, fam, "inv_odd_mod", wname, vec![hex(a), hex(b)], guard(|| match Option::<Uint<$n>>::from(ua.inv_odd_mod(&om)) { Some(x) => cat(vec![1], w(&x)), None => vec![0] }), guard(|| match Option::<BoxedUint>::from(xa.inv_odd_mod(&obm)) { Some(x) => cat(vec![1], bw(&x)), None => vec![0] }));
                }
                if !is_zero(b) {
                    diff(l, fam, "inv_mod", wname, vec![hex(a), hex(b)], guard(|| match Option::<Uint<$n>>::from(ua.inv_mod(&ub)) { Some(x) => cat(vec![1], w(&x)), None => vec![0] }), guard(|| match Option::<BoxedUint>::from(xa.inv_mod(&xb)) { Some(x) => cat(vec![1], bw(&x)), None => vec![0] }));
                }
            }
        }
    )*};
}
impl_gcd_pair!(1, 2, 3, 4, 8, 16, 32, 64);
fn gcd_pair<const N: usize>(l: &mut Local, fam: &'static str, wname: &str, a: &Limbs, b: &Limbs)
where
    (): GcdPair<N>,
{
    <() as GcdPair<N>>::run(l, fam, wname, a, b)
}

// ---------------------------------------------------------------------------------------------
// const context vs run time

const fn ops64() -> [U64; 5] {
    [U64::ZERO, U64::ONE, U64::MAX, U64::from_u64(1 << 63), U64::from_u64(0x0123_4567_89ab_cdef)]
}
const fn ops256() -> [U256; 5] {
    [
        U256::ZERO,
        U256::ONE,
        U256::MAX,
        U256::from_be_hex("8000000000000000000000000000000000000000000000000000000000000000"),
        U256::from_be_hex("0123456789abcdeffedcba9876543210f0e1d2c3b4a5968778695a4b3c2d1e0f"),
    ]
}
const fn nz256() -> [NonZero<U256>; 5] {
    [
        NonZero::<U256>::new_unwrap(U256::ONE),
        NonZero::<U256>::new_unwrap(U256::from_u64(3)),
        NonZero::<U256>::new_unwrap(U256::MAX),
        NonZero::<U256>::new_unwrap(U256::from_be_hex("8000000000000000000000000000000000000000000000000000000000000001")),
        NonZero::<U256>::new_unwrap(U256::from_be_hex("00000000000000000000000000000001000000000000000000000000000000ff")),
    ]
}
const fn nz64() -> [NonZero<U64>; 5] {
    [NonZero::<U64>::new_unwrap(U64::ONE), NonZero::<U64>::new_unwrap(U64::from_u64(3)), NonZero::<U64>::new_unwrap(U64::MAX), NonZero::<U64>::new_unwrap(U64::from_u64((1 << 63) + 1)), NonZero::<U64>::new_unwrap(U64::from_u64(0x1_0000_00ff))]
}

fn cc(c: ConstChoice) -> u64 {
    bool::from(c) as u64
}

/// one grid: a const table TABLE[i][j] = op(A[i], B[j]) evaluated by the compiler, compared with the same expression at run time
macro_rules! cvr {
    ($l:expr, $name:expr, $T:ty, $A:expr, $B:expr, $init:expr, |$a:ident, $b:ident| $e:expr, $fmt:expr) => {{
        const TABLE: [[$T; 5]; 5] = {
            let aa = $A;
            let bb = $B;
            let mut r = [[$init; 5]; 5];
            let mut i = 0;
            while i < 5 {
                let mut j = 0;
                while j < 5 {
                    let $a = &aa[i];
                    let $b = &bb[j];
                    r[i][j] = $e;
                    j += 1;
                }
                i += 1;
            }
            r
        };
        let aa = $A;
        let bb = $B;
        for i in 0..5 {
            for j in 0..5 {
                let $a = black_box(&aa[i]);
                let $b = black_box(&bb[j]);
                let fmt = $fmt;
                let rt = guard(|| fmt(&$e));
                diff($l, "const_vs_runtime", $name, "grid 5x5", vec![format!("i={i}"), format!("j={j}")], Ok(fmt(&TABLE[i][j])), rt);
                $l.cases += 1;
                $l.nontrivial += 1;
            }
        }
    }};
}

macro_rules! const_grid {
    ($l:expr, $U:ty, $n:literal, $ops:expr, $nz:expr) => {{
        type U = $U;
        let l: &mut Local = $l;
        cvr!(l, concat!("const adc<", $n, ">"), (U, Limb), $ops, $ops, (U::ZERO, Limb::ZERO), |a, b| a.adc(b, Limb::ONE), |r: &(U, Limb)| cat(w(&r.0), vec![r.1.0]));
        cvr!(l, concat!("const sbb<", $n, ">"), (U, Limb), $ops, $ops, (U::ZERO, Limb::ZERO), |a, b| a.sbb(b, Limb::ZERO), |r: &(U, Limb)| cat(w(&r.0), vec![r.1.0]));
        cvr!(l, concat!("const wrapping_add<", $n, ">"), U, $ops, $ops, U::ZERO, |a, b| a.wrapping_add(b), |r: &U| w(r));
        cvr!(l, concat!("const wrapping_sub<", $n, ">"), U, $ops, $ops, U::ZERO, |a, b| a.wrapping_sub(b), |r: &U| w(r));
        cvr!(l, concat!("const saturating_add<", $n, ">"), U, $ops, $ops, U::ZERO, |a, b| a.saturating_add(b), |r: &U| w(r));
        cvr!(l, concat!("const saturating_sub<", $n, ">"), U, $ops, $ops, U::ZERO, |a, b| a.saturating_sub(b), |r: &U| w(r));
        cvr!(l, concat!("const wrapping_neg<", $n, ">"), U, $ops, $ops, U::ZERO, |a, _b| a.wrapping_neg(), |r: &U| w(r));
        cvr!(l, concat!("const carrying_neg<", $n, ">"), (U, ConstChoice), $ops, $ops, (U::ZERO, ConstChoice::FALSE), |a, _b| a.carrying_neg(), |r: &(U, ConstChoice)| cat(w(&r.0), vec![cc(r.1)]));
        cvr!(l, concat!("const split_mul<", $n, ">"), (U, U), $ops, $ops, (U::ZERO, U::ZERO), |a, b| a.split_mul(b), |r: &(U, U)| cat(w(&r.0), w(&r.1)));
        cvr!(l, concat!("const wrapping_mul<", $n, ">"), U, $ops, $ops, U::ZERO, |a, b| a.wrapping_mul(b), |r: &U| w(r));
        cvr!(l, concat!("const saturating_mul<", $n, ">"), U, $ops, $ops, U::ZERO, |a, b| a.saturating_mul(b), |r: &U| w(r));
        cvr!(l, concat!("const square_wide<", $n, ">"), (U, U), $ops, $ops, (U::ZERO, U::ZERO), |a, _b| a.square_wide(), |r: &(U, U)| cat(w(&r.0), w(&r.1)));
        cvr!(l, concat!("const wrapping_square<", $n, ">"), U, $ops, $ops, U::ZERO, |a, _b| a.wrapping_square(), |r: &U| w(r));
        cvr!(l, concat!("const checked_square<", $n, ">"), (U, ConstChoice), $ops, $ops, (U::ZERO, ConstChoice::FALSE), |a, _b| { let o = a.checked_square(); let s_ = o.is_some(); (o.unwrap_or(U::ZERO), s_) }, |r: &(U, ConstChoice)| if cc(r.1) == 1 { cat(vec![1], w(&r.0)) } else { vec![0] });
        cvr!(l, concat!("const saturating_square<", $n, ">"), U, $ops, $ops, U::ZERO, |a, _b| a.saturating_square(), |r: &U| w(r));
        cvr!(l, concat!("const bitand<", $n, ">"), U, $ops, $ops, U::ZERO, |a, b| a.bitand(b), |r: &U| w(r));
        cvr!(l, concat!("const bitor<", $n, ">"), U, $ops, $ops, U::ZERO, |a, b| a.bitor(b), |r: &U| w(r));
        cvr!(l, concat!("const bitxor<", $n, ">"), U, $ops, $ops, U::ZERO, |a, b| a.bitxor(b), |r: &U| w(r));
        cvr!(l, concat!("const not<", $n, ">"), U, $ops, $ops, U::ZERO, |a, _b| a.not(), |r: &U| w(r));
        cvr!(l, concat!("const overflowing_shl<", $n, ">"), (U, ConstChoice), $ops, $ops, (U::ZERO, ConstChoice::FALSE), |a, b| { let o = a.overflowing_shl((b.as_words()[0] % (64 * $n + 8)) as u32); let s_ = o.is_some(); (o.unwrap_or(U::ZERO), s_) }, |r: &(U, ConstChoice)| if cc(r.1) == 1 { cat(vec![1], w(&r.0)) } else { vec![0] });
        cvr!(l, concat!("const overflowing_shr<", $n, ">"), (U, ConstChoice), $ops, $ops, (U::ZERO, ConstChoice::FALSE), |a, b| { let o = a.overflowing_shr((b.as_words()[0] % (64 * $n + 8)) as u32); let s_ = o.is_some(); (o.unwrap_or(U::ZERO), s_) }, |r: &(U, ConstChoice)| if cc(r.1) == 1 { cat(vec![1], w(&r.0)) } else { vec![0] });
        cvr!(l, concat!("const overflowing_shl_vartime<", $n, ">"), (U, ConstChoice), $ops, $ops, (U::ZERO, ConstChoice::FALSE), |a, b| { let o = a.overflowing_shl_vartime((b.as_words()[0] % (64 * $n + 8)) as u32); let s_ = o.is_some(); (o.unwrap_or(U::ZERO), s_) }, |r: &(U, ConstChoice)| if cc(r.1) == 1 { cat(vec![1], w(&r.0)) } else { vec![0] });
        cvr!(l, concat!("const wrapping_shl<", $n, ">"), U, $ops, $ops, U::ZERO, |a, b| a.wrapping_shl((b.as_words()[0] % (64 * $n + 8)) as u32), |r: &U| w(r));
        cvr!(l, concat!("const wrapping_shr<", $n, ">"), U, $ops, $ops, U::ZERO, |a, b| a.wrapping_shr((b.as_words()[0] % (64 * $n + 8)) as u32), |r: &U| w(r));
        cvr!(l, concat!("const wrapping_shr_vartime<", $n, ">"), U, $ops, $ops, U::ZERO, |a, b| a.wrapping_shr_vartime((b.as_words()[0] % (64 * $n + 8)) as u32), |r: &U| w(r));
        cvr!(l, concat!("const bits<", $n, ">"), [u32; 6], $ops, $ops, [0; 6], |a, _b| [a.bits(), a.bits_vartime(), a.leading_zeros(), a.trailing_zeros(), a.trailing_ones(), a.trailing_zeros_vartime()], |r: &[u32; 6]| r.iter().map(|&x| x as u64).collect::<Vec<_>>());
        cvr!(l, concat!("const bit<", $n, ">"), (ConstChoice, bool), $ops, $ops, (ConstChoice::FALSE, false), |a, b| (a.bit((b.as_words()[0] % (64 * $n + 8)) as u32), a.bit_vartime((b.as_words()[0] % (64 * $n + 8)) as u32)), |r: &(ConstChoice, bool)| vec![cc(r.0), r.1 as u64]);
        cvr!(l, concat!("const cmp_vartime<", $n, ">"), i8, $ops, $ops, 0, |a, b| a.cmp_vartime(b) as i8, |r: &i8| vec![*r as u64]);
        cvr!(l, concat!("const div_rem<", $n, ">"), (U, U), $ops, $nz, (U::ZERO, U::ZERO), |a, b| a.div_rem(b), |r: &(U, U)| cat(w(&r.0), w(&r.1)));
        cvr!(l, concat!("const div_rem_vartime<", $n, ">"), (U, U), $ops, $nz, (U::ZERO, U::ZERO), |a, b| a.div_rem_vartime(b), |r: &(U, U)| cat(w(&r.0), w(&r.1)));
        cvr!(l, concat!("const rem<", $n, ">"), U, $ops, $nz, U::ZERO, |a, b| a.rem(b), |r: &U| w(r));
        cvr!(l, concat!("const rem_vartime<", $n, ">"), U, $ops, $nz, U::ZERO, |a, b| a.rem_vartime(b), |r: &U| w(r));
        cvr!(l, concat!("const wrapping_div<", $n, ">"), U, $ops, $nz, U::ZERO, |a, b| a.wrapping_div(b), |r: &U| w(r));
        cvr!(l, concat!("const rem_wide_vartime<", $n, ">"), U, $ops, $nz, U::ZERO, |a, b| U::rem_wide_vartime((*a, a.not()), b), |r: &U| w(r));
        cvr!(l, concat!("const rem2k_vartime<", $n, ">"), U, $ops, $ops, U::ZERO, |a, b| a.rem2k_vartime((b.as_words()[0] % (64 * $n + 8)) as u32), |r: &U| w(r));
        cvr!(l, concat!("const sqrt<", $n, ">"), (U, U), $ops, $ops, (U::ZERO, U::ZERO), |a, _b| (a.sqrt(), a.sqrt_vartime()), |r: &(U, U)| cat(w(&r.0), w(&r.1)));
        cvr!(l, concat!("const inv_mod2k<", $n, ">"), (U, ConstChoice), $ops, $ops, (U::ZERO, ConstChoice::FALSE), |a, b| { let o = a.inv_mod2k((b.as_words()[0] % (64 * $n + 1)) as u32); let s_ = o.is_some(); (o.unwrap_or(U::ZERO), s_) }, |r: &(U, ConstChoice)| if cc(r.1) == 1 { cat(vec![1], w(&r.0)) } else { vec![0] });
        cvr!(l, concat!("const inv_mod2k_vartime<", $n, ">"), (U, ConstChoice), $ops, $ops, (U::ZERO, ConstChoice::FALSE), |a, b| { let o = a.inv_mod2k_vartime((b.as_words()[0] % (64 * $n + 1)) as u32); let s_ = o.is_some(); (o.unwrap_or(U::ZERO), s_) }, |r: &(U, ConstChoice)| if cc(r.1) == 1 { cat(vec![1], w(&r.0)) } else { vec![0] });
        cvr!(l, concat!("const gcd<", $n, ">"), U, $ops, $ops, U::ZERO, |a, b| a.gcd(b), |r: &U| w(r));
        cvr!(l, concat!("const inv_mod<", $n, ">"), (U, ConstChoice), $ops, $nz, (U::ZERO, ConstChoice::FALSE), |a, b| { let o = a.inv_mod(b.as_ref()); let s_ = o.is_some(); (o.unwrap_or(U::ZERO), s_) }, |r: &(U, ConstChoice)| if cc(r.1) == 1 { cat(vec![1], w(&r.0)) } else { vec![0] });
        cvr!(l, concat!("const add_mod/sub_mod/neg_mod/double_mod<", $n, ">"), [U; 4], $ops, $nz, [U::ZERO; 4], |a, b| { let x = a.rem(b); let y = a.not().rem(b); [x.add_mod(&y, b.as_ref()), x.sub_mod(&y, b.as_ref()), x.neg_mod(b.as_ref()), x.double_mod(b.as_ref())] }, |r: &[U; 4]| r.iter().flat_map(|x| w(x)).collect::<Vec<_>>());
        cvr!(l, concat!("const mul_mod_special<", $n, ">"), [U; 3], $ops, $ops, [U::ZERO; 3], |a, b| { let c = Limb(0x1_0000_03d1); let p = NonZero::<U>::new_unwrap(U::ZERO.wrapping_sub(&U::from_word(c.0))); let x = a.rem(&p); let y = b.rem(&p); [x.mul_mod_special(&y, c), x.add_mod_special(&y, c), x.sub_mod_special(&y, c)] }, |r: &[U; 3]| r.iter().flat_map(|x| w(x)).collect::<Vec<_>>());
        // Int
        cvr!(l, concat!("const Int::checked_add<", $n, ">"), (Int<$n>, ConstChoice), $ops, $ops, (Int::<$n>::ZERO, ConstChoice::FALSE), |a, b| { let o = a.as_int().checked_add(&b.as_int()); let s_ = o.is_some(); (o.unwrap_or(Int::<$n>::ZERO), s_) }, |r: &(Int<$n>, ConstChoice)| if cc(r.1) == 1 { cat(vec![1], w(r.0.as_uint())) } else { vec![0] });
        cvr!(l, concat!("const Int::overflowing_add<", $n, ">"), (Int<$n>, ConstChoice), $ops, $ops, (Int::<$n>::ZERO, ConstChoice::FALSE), |a, b| a.as_int().overflowing_add(&b.as_int()), |r: &(Int<$n>, ConstChoice)| cat(w(r.0.as_uint()), vec![cc(r.1)]));
        cvr!(l, concat!("const Int::checked_neg/abs_sign<", $n, ">"), (Int<$n>, ConstChoice, Uint<$n>, ConstChoice), $ops, $ops, (Int::<$n>::ZERO, ConstChoice::FALSE, Uint::<$n>::ZERO, ConstChoice::FALSE), |a, _b| { let i = a.as_int(); let (m, s) = i.abs_sign(); let o = i.checked_neg(); let s_ = o.is_some(); (o.unwrap_or(Int::<$n>::ZERO), s_, m, s) }, |r: &(Int<$n>, ConstChoice, Uint<$n>, ConstChoice)| cat(cat(if cc(r.1) == 1 { cat(vec![1], w(r.0.as_uint())) } else { vec![0] }, w(&r.2)), vec![cc(r.3)]));
        cvr!(l, concat!("const Int::split_mul<", $n, ">"), (Uint<$n>, Uint<$n>, ConstChoice), $ops, $ops, (Uint::<$n>::ZERO, Uint::<$n>::ZERO, ConstChoice::FALSE), |a, b| a.as_int().split_mul(&b.as_int()), |r: &(Uint<$n>, Uint<$n>, ConstChoice)| cat(cat(w(&r.0), w(&r.1)), vec![if is_zero(&w(&r.0)) && is_zero(&w(&r.1)) { 0 } else { cc(r.2) }]));
        cvr!(l, concat!("const Int::shr<", $n, ">"), (Int<$n>, ConstChoice, Int<$n>), $ops, $ops, (Int::<$n>::ZERO, ConstChoice::FALSE, Int::<$n>::ZERO), |a, b| { let o = a.as_int().overflowing_shr((b.as_words()[0] % (64 * $n + 8)) as u32); let s_ = o.is_some(); (o.unwrap_or(Int::<$n>::ZERO), s_, a.as_int().wrapping_shr((b.as_words()[0] % (64 * $n + 8)) as u32)) }, |r: &(Int<$n>, ConstChoice, Int<$n>)| cat(if cc(r.1) == 1 { cat(vec![1], w(r.0.as_uint())) } else { vec![0] }, w(r.2.as_uint())));
        // Montgomery: params, conversion, mul, pow in a const context
        cvr!(l, concat!("const MontyForm new/mul/pow/retrieve<", $n, ">"), [U; 4], $ops, $nz, [U::ZERO; 4], |a, b| {
            let m = b.as_ref().bitor(&U::ONE).to_odd().expect("odd");
            let p = MontyParams::new_vartime(m);
            let x = MontyForm::new(a, p);
            let y = MontyForm::new(&a.not(), p);
            [x.retrieve(), x.mul(&y).retrieve(), x.pow(&U::from_u64(0x1_0001)).retrieve(), x.add(&y).sub(&x.neg()).double().div_by_2().retrieve()]
        }, |r: &[U; 4]| r.iter().flat_map(|x| w(x)).collect::<Vec<_>>());
    }};
}

fn main() {
    let ctx = Ctx::from_args(P, "exploration");
    ctx.set_rule("Differential (no oracle): (1) Uint<N> vs BoxedUint(64N) for N in {1,2,3,4,8,16,32,64}: ~55 operations (add/sub/mul/square/div/rem/mod ops/shifts in and out of range/bit queries/cmp/sqrt/gcd/inversion/encodings) on the complete square of an operand set, results AND documented precision must be bit-identical (both panicking counts as identical); \
        (2) const context vs run time: ~50 const fn operations x 5x5 operand grid x widths {1,4}: the table computed by the compiler must equal the same expression evaluated at run time behind black_box. The per-family pair layer (forms sharing a group in C02-C10, C13, C14, C16, C17, C20) is added by the C15 driver. Non-trivial: operands differ.");
    ctx.assume("limb values outside the stated alphabets are not explored; the pairs compared are those listed in coverage.form_pair_comparisons");
    let ctx = &ctx;
    fixed_vs_boxed!(ctx, 1, true);
    fixed_vs_boxed!(ctx, 2, true);
    fixed_vs_boxed!(ctx, 3, true);
    fixed_vs_boxed!(ctx, 4, true);
    fixed_vs_boxed!(ctx, 8, true);
    fixed_vs_boxed!(ctx, 16, true);
    fixed_vs_boxed!(ctx, 32, ctx.thorough());
    fixed_vs_boxed!(ctx, 64, false);
    if ctx.want("const_vs_runtime") {
        ctx.seq("const_vs_runtime", "U64", |l| const_grid!(l, U64, 1, ops64(), nz64()));
        ctx.seq("const_vs_runtime", "U256", |l| const_grid!(l, U256, 4, ops256(), nz256()));
    }
    std::process::exit(ctx.finish());
}
