//! C02 — unsigned division and remainder are exact for every dividend and divisor (engine E1).
use crypto_bigint::subtle::CtOption;
use crypto_bigint::{
    BoxedUint, CheckedDiv, DivRemLimb, DivVartime, Limb, NonZero, Reciprocal, RemLimb, RemMixed, Uint, Wrapping,
};
use num_bigint::BigUint;
use num_traits::{One, Zero};
use vcommon::*;

const P: &str = "C02";

macro_rules! chk {
    ($cs:expr, $name:expr, $exp:expr, $e:expr) => {
        $cs.check($name, "any", $exp, guard(|| $e))
    };
}

fn uopt<const N: usize>(o: CtOption<Uint<N>>) -> Out {
    match Option::<Uint<N>>::from(o) {
        Some(x) => Out::Val(w(&x)),
        None => Out::None,
    }
}
fn bopt(o: CtOption<BoxedUint>) -> Out {
    match Option::<BoxedUint>::from(o) {
        Some(x) => Out::Val(bw(&x)),
        None => Out::None,
    }
}
fn cat(a: &[u64], b: &[u64]) -> Out {
    let mut v = a.to_vec();
    v.extend_from_slice(b);
    Out::Val(v)
}

// ---------------------------------------------------------------------------------------------
// Oracle-side classifier of the Knuth D paths (pure arithmetic on the operands).
fn classify_knuth(n: &BigUint, d: &BigUint, l: &mut Local) {
    let b = BigUint::one() << 64;
    let dl = d.to_u64_digits();
    if n < d {
        l.class("n<d");
    }
    if d.is_one() {
        l.class("d=1");
    }
    if d.count_ones() == 1 {
        l.class("d=2^k");
    }
    if d.bits() % 64 == 0 {
        l.class("lshift=0 (divisor bit length multiple of 64)");
    }
    if dl.len() == 1 {
        l.class("single-limb divisor");
        return;
    }
    let s = (64 - d.bits() % 64) % 64;
    let v = d << s;
    let un = n << s;
    let vl = v.to_u64_digits();
    let yc = vl.len();
    let v1 = vl[yc - 1];
    let v0 = vl[yc - 2];
    if v1 == MAX {
        l.class("normalised top limb = MAX");
    }
    if v0 == 0 {
        l.class("second divisor limb = 0");
    }
    if v0 == MAX {
        l.class("second divisor limb = MAX");
    }
    let mut ul = un.to_u64_digits();
    let xc = n.to_u64_digits().len().max(yc);
    ul.resize(xc + 1, 0);
    // long division, digit by digit
    let mut rem = BigUint::zero();
    // take top yc-1 limbs as the initial remainder window
    for i in (xc + 1 - (yc - 1)..xc + 1).rev() {
        rem = (rem << 64) + ul[i];
    }
    let v_top2 = (BigUint::from(v1) << 64) + v0;
    for i in (0..xc + 1 - (yc - 1)).rev() {
        rem = (rem << 64) + ul[i];
        let q_true = &rem / &v;
        // 3-by-2 estimate from the top three limbs of the window and top two of the divisor
        let top3 = &rem >> (64 * (yc - 2));
        let mut q_est = &top3 / &v_top2;
        let u2 = (&rem >> (64 * yc)).to_u64_digits().first().copied().unwrap_or(0);
        if u2 == v1 {
            l.class("quotient estimate capped (top dividend limb = top divisor limb)");
        }
        if q_est >= b {
            q_est = &b - 1u32;
        }
        if q_est > q_true {
            if yc >= 3 {
                l.class("add-back (3-by-2 estimate one too large)");
            } else {
                l.class("estimate>true with 2-limb divisor (impossible)");
            }
        }
        rem -= &q_true * &v;
    }
}

// ---------------------------------------------------------------------------------------------
fn dividends(n: usize, ctx: &Ctx) -> Vec<Limbs> {
    let th = ctx.thorough();
    let mut v = if n <= 2 {
        full(n, &l9())
    } else if n == 3 {
        full(3, &l5())
    } else if n == 4 {
        if th { full(4, &l5()) } else { runs(4, &l5(), 3) }
    } else if n <= 8 {
        let mut v = runs(n, &l5(), if th { 3 } else { 2 });
        v.extend(runs(n, &l3(), 3));
        v
    } else {
        let mut v = runs(n, &l5(), 2);
        if n <= 16 || th {
            v.extend(runs(n, &l3(), if n <= 32 { 3 } else { 2 }));
        }
        v
    };
    let (g1, g2) = generic_limbs(ctx.seed);
    v.push((0..n).map(|i| if i % 2 == 0 { g1 } else { g2 }.rotate_left(i as u32)).collect());
    dedup(v)
}

fn divisors(n: usize, ctx: &Ctx) -> Vec<Limbs> {
    let th = ctx.thorough();
    let mut v = if n <= 2 {
        full(n, &l9())
    } else if n == 3 {
        full(3, &l5())
    } else if n == 4 {
        if th { full(4, &l5()) } else { full(4, &l3()) }
    } else if n <= 8 {
        runs(n, &l5(), 2)
    } else {
        runs(n, &l3(), 2)
    };
    // every bit length incl. multiples of 64 and single-limb divisors inside the wide type
    let bs = bits(n);
    if n <= 8 || th {
        v.extend(bs);
    } else {
        v.extend(bs.into_iter().step_by(7));
        for j in (63..64 * n).step_by(64) {
            v.push(from_big(&pow2(j), n));
            v.push(from_big(&(pow2(j + 1) - 1u32), n));
        }
    }
    // textbook add-back divisor embedded at the top: [1,0,2^63] preceded by fill
    if n >= 3 {
        for fill in [0u64, MAX] {
            let mut d = vec![fill; n];
            d[n - 3] = 1;
            d[n - 2] = 0;
            d[n - 1] = TOP;
            v.push(d);
            let mut d2 = vec![0u64; n];
            d2[0] = 1;
            d2[1] = 0;
            d2[2] = TOP;
            let _ = fill;
            v.push(d2);
        }
    }
    let (g1, g2) = generic_limbs(ctx.seed);
    v.push((0..n).map(|i| if i % 2 == 0 { g2 } else { g1 }.rotate_left(3 * i as u32)).collect());
    dedup(v)
}

/// extra dividends constructed from (q, d): q*d-1, q*d, q*d+1 (those that fit), and the textbook add-back dividend
fn near_dividends(n: usize, ds: &[Limbs], ctx: &Ctx) -> Vec<(Limbs, usize)> {
    let qs: Vec<Limbs> = if n <= 2 { full(n, &l5()) } else { runs(n, &l3(), 2) };
    let mut out = Vec::new();
    let step = if ctx.thorough() { 1 } else { (ds.len() / 40).max(1) };
    for (di, d) in ds.iter().enumerate().step_by(step) {
        let bd = to_big(d);
        if bd.is_zero() {
            continue;
        }
        for q in &qs {
            let p = to_big(q) * &bd;
            if p.is_zero() || !fits(&(&p + 1u32), n) {
                continue;
            }
            for x in near(&p, n) {
                out.push((x, di));
            }
        }
    }
    out
}

fn replay_inputs(ctx: &Ctx) -> Option<Vec<Limbs>> {
    let r = ctx.replay.as_ref()?;
    Some(r["inputs"].as_array()?.iter().filter_map(|v| v.as_str()).filter(|s| s.starts_with('[')).map(parse_hex_limbs).collect())
}

fn fam_div<const N: usize>(ctx: &Ctx) {
    let fam = "uint_div";
    let wname = format!("Uint<{N}>");
    if !ctx.want(fam) {
        return;
    }
    if let Some(r) = &ctx.replay {
        if r["width"].as_str() != Some(&wname) {
            return;
        }
    }
    let (cap_n, cap_d) = match (ctx.thorough(), N >= 32) { (true, true) => (1500, 2000), (true, false) => (3000, 4000), (false, true) => (500, 700), (false, false) => (1500, 1200) };
    let ns = thin(dividends(N, ctx), cap_n);
    let ds = thin(divisors(N, ctx), cap_d);
    let classify_all = N <= 4;
    let body = |a: &Limbs, d: &Limbs, idx: usize, l: &mut Local| {
        let ins: [&[u64]; 2] = [a, d];
        let mut cs = Case::new(l, P, fam, &wname, &ins);
        let (ua, ud) = (u::<N>(a), u::<N>(d));
        let (bn, bd) = (to_big(a), to_big(d));
        if bd.is_zero() {
            // checked forms are none exactly when d = 0; panicking convenience forms panic
            chk!(cs, "Uint::checked_div", &Out::None, uopt(ua.checked_div(&ud)));
            chk!(cs, "Uint:CheckedDiv", &Out::None, uopt(CheckedDiv::checked_div(&ua, &ud)));
            chk!(cs, "Uint::checked_rem", &Out::None, uopt(ua.checked_rem(&ud)));
            cs.group();
            chk!(cs, "Uint::wrapping_rem_vartime", &Out::Panic, Out::v(&w(&ua.wrapping_rem_vartime(&ud))));
            chk!(cs, "Uint/Uint", &Out::Panic, Out::v(&w(&(ua / ud))));
            chk!(cs, "&Uint/Uint", &Out::Panic, Out::v(&w(&(&ua / ud))));
            chk!(cs, "Uint%Uint", &Out::Panic, Out::v(&w(&(ua % ud))));
            chk!(cs, "&Uint%Uint", &Out::Panic, Out::v(&w(&(&ua % ud))));
            cs.l.class("d=0");
            return;
        }
        let q = from_big(&(&bn / &bd), N);
        let r = from_big(&(&bn % &bd), N);
        cs.l.nontrivial += (bn >= bd && !bd.is_one()) as u64;
        if classify_all || idx % 16 == 0 {
            classify_knuth(&bn, &bd, cs.l);
        }
        let nz = NonZero::new(ud).unwrap();
        let qr = cat(&q, &r);
        // second, independent oracle: n == q*d + r with r < d, recomputed from what the subject returned
        match guard(|| ua.div_rem(&nz)) {
            Ok((gq, gr)) => {
                let ok = to_big(&w(&gq)) * &bd + to_big(&w(&gr)) == bn && to_big(&w(&gr)) < bd;
                cs.assert("Uint::div_rem identity n=q*d+r,r<d", "any", ok, || ("identity holds".into(), format!("q={} r={}", hex(&w(&gq)), hex(&w(&gr)))));
                cs.check("Uint::div_rem", "any", &qr, Ok(cat(&w(&gq), &w(&gr))));
            }
            Err(m) => cs.check("Uint::div_rem", "any", &qr, Err(m)),
        }
        chk!(cs, "Uint::div_rem_vartime", &qr, {
            let (a_, b_) = ua.div_rem_vartime(&nz);
            cat(&w(&a_), &w(&b_))
        });
        cs.group();
        let eq = Out::v(&q);
        chk!(cs, "Uint::wrapping_div", &eq, Out::v(&w(&ua.wrapping_div(&nz))));
        chk!(cs, "Uint::wrapping_div_vartime", &eq, Out::v(&w(&ua.wrapping_div_vartime(&nz))));
        chk!(cs, "Uint::checked_div", &eq, uopt(ua.checked_div(&ud)));
        chk!(cs, "Uint:CheckedDiv", &eq, uopt(CheckedDiv::checked_div(&ua, &ud)));
        chk!(cs, "Uint:DivVartime", &eq, Out::v(&w(&DivVartime::div_vartime(&ua, &nz))));
        chk!(cs, "&Uint/&NonZero", &eq, Out::v(&w(&(&ua / &nz))));
        chk!(cs, "Uint/&NonZero", &eq, Out::v(&w(&(ua / &nz))));
        chk!(cs, "&Uint/NonZero", &eq, Out::v(&w(&(&ua / nz))));
        chk!(cs, "Uint/NonZero", &eq, Out::v(&w(&(ua / nz))));
        chk!(cs, "Uint/=&NonZero", &eq, {
            let mut x = ua;
            x /= &nz;
            Out::v(&w(&x))
        });
        chk!(cs, "Uint/=NonZero", &eq, {
            let mut x = ua;
            x /= nz;
            Out::v(&w(&x))
        });
        chk!(cs, "Wrapping<Uint>/NonZero", &eq, Out::v(&w(&(Wrapping(ua) / nz).0)));
        chk!(cs, "&Wrapping<Uint>/NonZero", &eq, Out::v(&w(&(&Wrapping(ua) / nz).0)));
        chk!(cs, "&Wrapping<Uint>/&NonZero", &eq, Out::v(&w(&(&Wrapping(ua) / &nz).0)));
        chk!(cs, "Wrapping<Uint>/&NonZero", &eq, Out::v(&w(&(Wrapping(ua) / &nz).0)));
        chk!(cs, "Wrapping<Uint>/=&NonZero", &eq, {
            let mut x = Wrapping(ua);
            x /= &nz;
            Out::v(&w(&x.0))
        });
        chk!(cs, "Wrapping<Uint>/=NonZero", &eq, {
            let mut x = Wrapping(ua);
            x /= nz;
            Out::v(&w(&x.0))
        });
        chk!(cs, "Uint/Uint", &eq, Out::v(&w(&(ua / ud))));
        chk!(cs, "&Uint/Uint", &eq, Out::v(&w(&(&ua / ud))));
        cs.group();
        let er = Out::v(&r);
        chk!(cs, "Uint::rem", &er, Out::v(&w(&ua.rem(&nz))));
        chk!(cs, "Uint::rem_vartime", &er, Out::v(&w(&ua.rem_vartime(&nz))));
        chk!(cs, "Uint::checked_rem", &er, uopt(ua.checked_rem(&ud)));
        chk!(cs, "Uint::wrapping_rem_vartime", &er, Out::v(&w(&ua.wrapping_rem_vartime(&ud))));
        chk!(cs, "&Uint%&NonZero", &er, Out::v(&w(&(&ua % &nz))));
        chk!(cs, "Uint%&NonZero", &er, Out::v(&w(&(ua % &nz))));
        chk!(cs, "&Uint%NonZero", &er, Out::v(&w(&(&ua % nz))));
        chk!(cs, "Uint%NonZero", &er, Out::v(&w(&(ua % nz))));
        chk!(cs, "Uint%=&NonZero", &er, {
            let mut x = ua;
            x %= &nz;
            Out::v(&w(&x))
        });
        chk!(cs, "Uint%=NonZero", &er, {
            let mut x = ua;
            x %= nz;
            Out::v(&w(&x))
        });
        chk!(cs, "Wrapping<Uint>%NonZero", &er, Out::v(&w(&(Wrapping(ua) % nz).0)));
        chk!(cs, "&Wrapping<Uint>%NonZero", &er, Out::v(&w(&(&Wrapping(ua) % nz).0)));
        chk!(cs, "&Wrapping<Uint>%&NonZero", &er, Out::v(&w(&(&Wrapping(ua) % &nz).0)));
        chk!(cs, "Wrapping<Uint>%&NonZero", &er, Out::v(&w(&(Wrapping(ua) % &nz).0)));
        chk!(cs, "Wrapping<Uint>%=&NonZero", &er, {
            let mut x = Wrapping(ua);
            x %= &nz;
            Out::v(&w(&x.0))
        });
        chk!(cs, "Wrapping<Uint>%=NonZero", &er, {
            let mut x = Wrapping(ua);
            x %= nz;
            Out::v(&w(&x.0))
        });
        chk!(cs, "Uint%Uint", &er, Out::v(&w(&(ua % ud))));
        chk!(cs, "&Uint%Uint", &er, Out::v(&w(&(&ua % ud))));
    };
    if let Some(ins) = replay_inputs(ctx) {
        if ins.len() >= 2 && ctx.replay.as_ref().unwrap()["family"] == fam {
            ctx.seq(fam, &wname, |l| body(&ins[0], &ins[1], 0, l));
        }
    } else {
        let k = ds.len();
        ctx.par_for(fam, &wname, ns.len() * k, |i, l| body(&ns[i / k], &ds[i % k], i, l));
        let nd = near_dividends(N, &ds, ctx);
        ctx.par_for(fam, &format!("{wname} NEAR(q*d)"), nd.len(), |i, l| body(&nd[i].0, &ds[nd[i].1], i, l));
    }

    // ---- double-width dividend: rem_wide_vartime((lo, hi), d)
    let fam = "uint_rem_wide";
    if ctx.want(fam) {
        let his: Vec<Limbs> = if N <= 2 { full(N, &l5()) } else { runs(N, &l3(), 2) };
        let los: Vec<Limbs> = if N <= 2 { full(N, &l5()) } else { runs(N, &l3(), 2) };
        let cap = if ctx.thorough() { 1200 } else { 400 };
        let dthin = thin(ds.clone(), cap);
        let dz: Vec<&Limbs> = dthin.iter().filter(|d| !is_zero(d)).collect();
        let (his, los) = if N > 8 { (thin(his, 40), thin(los, 40)) } else { (his, los) };
        let (kh, kd) = (his.len(), dz.len());
        let body = |lo_: &Limbs, hi_: &Limbs, d: &Limbs, l: &mut Local| {
            let ins: [&[u64]; 3] = [lo_, hi_, d];
            let mut cs = Case::new(l, P, fam, &wname, &ins);
            let bd = to_big(d);
            let bn = to_big(lo_) + (to_big(hi_) << (64 * N));
            cs.l.nontrivial += (!is_zero(hi_)) as u64;
            let nz = NonZero::new(u::<N>(d)).unwrap();
            chk!(cs, "Uint::rem_wide_vartime", &Out::v(&from_big(&(&bn % &bd), N)), Out::v(&w(&Uint::rem_wide_vartime((u::<N>(lo_), u::<N>(hi_)), &nz))));
        };
        if let Some(ins) = replay_inputs(ctx) {
            if ins.len() >= 3 && ctx.replay.as_ref().unwrap()["family"] == fam {
                ctx.seq(fam, &wname, |l| body(&ins[0], &ins[1], &ins[2], l));
            }
        } else {
            ctx.par_for(fam, &wname, los.len() * kh * kd, |i, l| body(&los[i / (kh * kd)], &his[(i / kd) % kh], dz[i % kd], l));
        }
    }

    // ---- power-of-two remainder: every k in 0..=BITS+1 (exhaustive in k)
    let fam = "uint_rem2k";
    if ctx.want(fam) && ctx.replay.is_none() {
        let vals: Vec<Limbs> = if N <= 2 { full(N, &l9()) } else { runs(N, &l5(), 2) };
        let nk = 64 * N + 2;
        ctx.par_for(fam, &wname, vals.len() * nk, |i, l| {
            let (a, k) = (&vals[i / nk], i % nk);
            let ins: [&[u64]; 1] = [a];
            let mut cs = Case::new(l, P, fam, &wname, &ins);
            cs.extra = Some(format!("k={k}"));
            cs.l.nontrivial += (k > 0 && k < 64 * N) as u64;
            let exp = from_big(&(to_big(a) % pow2(k)), N);
            chk!(cs, "Uint::rem2k_vartime", &Out::v(&exp), Out::v(&w(&u::<N>(a).rem2k_vartime(k as u32))));
        });
    }

    // ---- division by a single limb
    let fam = "uint_div_limb";
    if ctx.want(fam) {
        let mut dl: Vec<u64> = l13(ctx.seed);
        for j in 0..64 {
            dl.extend([1u64 << j, (1u64 << j).wrapping_sub(1), (1u64 << j).wrapping_add(1)]);
        }
        dl.extend([TOP + 2, (1 << 62) + 1, MAX - 2]);
        dl.sort();
        dl.dedup();
        dl.retain(|&x| x != 0);
        // dividends: the generator set plus exact multiples q*d (+-1) for structured q
        let k = dl.len();
        let body = |a: &Limbs, d: u64, l: &mut Local| {
            let dv = [d];
            let ins: [&[u64]; 2] = [a, &dv];
            let mut cs = Case::new(l, P, fam, &wname, &ins);
            let ua = u::<N>(a);
            let bn = to_big(a);
            let q = from_big(&(&bn / d), N);
            let r = (&bn % d).to_u64_digits().first().copied().unwrap_or(0);
            cs.l.nontrivial += (bn >= BigUint::from(d) && d != 1) as u64;
            let nzl = NonZero::new(Limb(d)).unwrap();
            let rec = Reciprocal::new(nzl);
            cs.assert("Reciprocal::shift", "any", rec.shift() == d.leading_zeros(), || (format!("{}", d.leading_zeros()), format!("{}", rec.shift())));
            let qr = Out::v2(&q, r);
            chk!(cs, "Uint::div_rem_limb", &qr, {
                let (a_, b_) = ua.div_rem_limb(nzl);
                Out::v2(&w(&a_), b_.0)
            });
            chk!(cs, "Uint::div_rem_limb_with_reciprocal", &qr, {
                let (a_, b_) = ua.div_rem_limb_with_reciprocal(&rec);
                Out::v2(&w(&a_), b_.0)
            });
            chk!(cs, "Uint:DivRemLimb::div_rem_limb", &qr, {
                let (a_, b_) = DivRemLimb::div_rem_limb(&ua, nzl);
                Out::v2(&w(&a_), b_.0)
            });
            chk!(cs, "Uint:DivRemLimb::with_reciprocal", &qr, {
                let (a_, b_) = DivRemLimb::div_rem_limb_with_reciprocal(&ua, &rec);
                Out::v2(&w(&a_), b_.0)
            });
            // a reciprocal that went through constant-time selection (CtOption::map / conditional_select) divides alike
            chk!(cs, "Uint::div_rem_limb_with_reciprocal(selected reciprocal)", &qr, {
                use crypto_bigint::subtle::{Choice, ConditionallySelectable};
                let sel = Reciprocal::conditional_select(&Reciprocal::default(), &rec, Choice::from(1));
                let (a_, b_) = ua.div_rem_limb_with_reciprocal(&sel);
                Out::v2(&w(&a_), b_.0)
            });
            cs.group();
            let er = Out::Val(vec![r]);
            chk!(cs, "Uint::rem_limb", &er, Out::Val(vec![ua.rem_limb(nzl).0]));
            chk!(cs, "Uint::rem_limb_with_reciprocal", &er, Out::Val(vec![ua.rem_limb_with_reciprocal(&rec).0]));
            chk!(cs, "Uint:RemLimb::rem_limb", &er, Out::Val(vec![RemLimb::rem_limb(&ua, nzl).0]));
            chk!(cs, "Uint:RemLimb::with_reciprocal", &er, Out::Val(vec![RemLimb::rem_limb_with_reciprocal(&ua, &rec).0]));
            chk!(cs, "&Uint%&NonZero<Limb>", &er, Out::Val(vec![(&ua % &nzl).0]));
            chk!(cs, "Uint%&NonZero<Limb>", &er, Out::Val(vec![(ua % &nzl).0]));
            chk!(cs, "&Uint%NonZero<Limb>", &er, Out::Val(vec![(&ua % nzl).0]));
            chk!(cs, "Uint%NonZero<Limb>", &er, Out::Val(vec![(ua % nzl).0]));
            chk!(cs, "Wrapping<Uint>%NonZero<Limb>", &er, Out::Val(vec![(Wrapping(ua) % nzl).0.0]));
            chk!(cs, "&Wrapping<Uint>%NonZero<Limb>", &er, Out::Val(vec![(&Wrapping(ua) % nzl).0.0]));
            chk!(cs, "&Wrapping<Uint>%&NonZero<Limb>", &er, Out::Val(vec![(&Wrapping(ua) % &nzl).0.0]));
            chk!(cs, "Wrapping<Uint>%&NonZero<Limb>", &er, Out::Val(vec![(Wrapping(ua) % &nzl).0.0]));
            cs.group();
            // `%=` by a limb stores the remainder into the Uint
            let mut rw = vec![0u64; N];
            rw[0] = r;
            let erw = Out::v(&rw);
            chk!(cs, "Uint%=&NonZero<Limb>", &erw, {
                let mut x = ua;
                x %= &nzl;
                Out::v(&w(&x))
            });
            chk!(cs, "Uint%=NonZero<Limb>", &erw, {
                let mut x = ua;
                x %= nzl;
                Out::v(&w(&x))
            });
            chk!(cs, "Wrapping<Uint>%=NonZero<Limb>", &erw, {
                let mut x = Wrapping(ua);
                x %= nzl;
                Out::v(&w(&x.0))
            });
            chk!(cs, "Wrapping<Uint>%=&NonZero<Limb>", &erw, {
                let mut x = Wrapping(ua);
                x %= &nzl;
                Out::v(&w(&x.0))
            });
            cs.group();
            let eq = Out::v(&q);
            chk!(cs, "&Uint/&NonZero<Limb>", &eq, Out::v(&w(&(&ua / &nzl))));
            chk!(cs, "Uint/&NonZero<Limb>", &eq, Out::v(&w(&(ua / &nzl))));
            chk!(cs, "&Uint/NonZero<Limb>", &eq, Out::v(&w(&(&ua / nzl))));
            chk!(cs, "Uint/NonZero<Limb>", &eq, Out::v(&w(&(ua / nzl))));
            chk!(cs, "Uint/=&NonZero<Limb>", &eq, {
                let mut x = ua;
                x /= &nzl;
                Out::v(&w(&x))
            });
            chk!(cs, "Uint/=NonZero<Limb>", &eq, {
                let mut x = ua;
                x /= nzl;
                Out::v(&w(&x))
            });
            chk!(cs, "Wrapping<Uint>/NonZero<Limb>", &eq, Out::v(&w(&(Wrapping(ua) / nzl).0)));
            chk!(cs, "&Wrapping<Uint>/NonZero<Limb>", &eq, Out::v(&w(&(&Wrapping(ua) / nzl).0)));
            chk!(cs, "&Wrapping<Uint>/&NonZero<Limb>", &eq, Out::v(&w(&(&Wrapping(ua) / &nzl).0)));
            chk!(cs, "Wrapping<Uint>/&NonZero<Limb>", &eq, Out::v(&w(&(Wrapping(ua) / &nzl).0)));
            chk!(cs, "Wrapping<Uint>/=&NonZero<Limb>", &eq, {
                let mut x = Wrapping(ua);
                x /= &nzl;
                Out::v(&w(&x.0))
            });
            chk!(cs, "Wrapping<Uint>/=NonZero<Limb>", &eq, {
                let mut x = Wrapping(ua);
                x /= nzl;
                Out::v(&w(&x.0))
            });
        };
        if let Some(ins) = replay_inputs(ctx) {
            if ins.len() >= 2 && ctx.replay.as_ref().unwrap()["family"] == fam {
                ctx.seq(fam, &wname, |l| body(&ins[0], ins[1][0], l));
            }
        } else {
            ctx.par_for(fam, &wname, ns.len() * k, |i, l| body(&ns[i / k], dl[i % k], l));
            // exact multiples and neighbours: q from a structured set
            let qs: Vec<Limbs> = if N <= 2 { full(N, &l9()) } else { runs(N, &l5(), 2) };
            let kq = qs.len();
            ctx.par_for(fam, &format!("{wname} NEAR(q*d)"), kq * k * 3, |i, l| {
                let (q, d, off) = (&qs[i / (3 * k)], dl[(i / 3) % k], i % 3);
                let p = to_big(q) * d;
                if !fits(&(&p + 1u32), N) || p.is_zero() {
                    return;
                }
                let x = match off {
                    0 => &p - 1u32,
                    1 => p.clone(),
                    _ => &p + 1u32,
                };
                body(&from_big(&x, N), d, l)
            });
        }
    }
}

type MixFn<'a, const N: usize, const M: usize> = Option<&'a (dyn Fn(&Uint<N>, &NonZero<Uint<M>>) -> Vec<u64> + Sync)>;

/// vartime forms with a divisor of a different width
fn fam_mixed<const N: usize, const M: usize>(ctx: &Ctx, rem_mixed: MixFn<N, M>) {
    let fam = "uint_div_mixed";
    let wname = format!("Uint<{N}>/<{M}>");
    if !ctx.want(fam) {
        return;
    }
    if let Some(r) = &ctx.replay {
        if r["width"].as_str() != Some(&wname) {
            return;
        }
    }
    let ns = dividends(N, ctx);
    let ds: Vec<Limbs> = divisors(M, ctx).into_iter().filter(|d| !is_zero(d)).collect();
    let k = ds.len();
    let body = |a: &Limbs, d: &Limbs, idx: usize, l: &mut Local| {
        let ins: [&[u64]; 2] = [a, d];
        let mut cs = Case::new(l, P, fam, &wname, &ins);
        let (bn, bd) = (to_big(a), to_big(d));
        let (ua, nz) = (u::<N>(a), NonZero::new(u::<M>(d)).unwrap());
        cs.l.nontrivial += (bn >= bd && !bd.is_one()) as u64;
        if idx % 8 == 0 {
            classify_knuth(&bn, &bd, cs.l);
        }
        let q = from_big(&(&bn / &bd), N);
        let r = from_big(&(&bn % &bd), M);
        chk!(cs, "Uint::div_rem_vartime<M>", &cat(&q, &r), {
            let (a_, b_) = ua.div_rem_vartime(&nz);
            cat(&w(&a_), &w(&b_))
        });
        cs.group();
        chk!(cs, "Uint::wrapping_div_vartime<M>", &Out::v(&q), Out::v(&w(&ua.wrapping_div_vartime(&nz))));
        if let Some(f) = rem_mixed {
            cs.group();
            chk!(cs, "Uint:RemMixed", &Out::v(&r), Out::Val(f(&ua, &nz)));
        }
    };
    if let Some(ins) = replay_inputs(ctx) {
        if ins.len() >= 2 {
            ctx.seq(fam, &wname, |l| body(&ins[0], &ins[1], 0, l));
        }
        return;
    }
    ctx.par_for(fam, &wname, ns.len() * k, |i, l| body(&ns[i / k], &ds[i % k], i, l));
}

// ---------------------------------------------------------------------------------------------
// BoxedUint

fn boxed_vals(n: usize, ctx: &Ctx, divisor: bool) -> Vec<Limbs> {
    let th = ctx.thorough();
    let mut v = if n <= 2 {
        full(n, &l5())
    } else if n <= 6 {
        runs(n, &l5(), 2)
    } else if n <= 20 || th {
        runs(n, &l3(), 2)
    } else {
        runs(n, &[0, MAX], 2)
    };
    if divisor {
        let bs = bits(n);
        let step = if n <= 4 || th { 1 } else { 11 };
        v.extend(bs.into_iter().step_by(step));
        for j in (63..64 * n).step_by(64) {
            v.push(from_big(&pow2(j), n));
            v.push(from_big(&(pow2(j + 1) - 1u32), n));
        }
        if n >= 3 {
            let mut d = vec![0u64; n];
            d[n - 3] = 1;
            d[n - 1] = TOP;
            v.push(d);
        }
    } else if n >= 4 {
        // textbook add-back dividend at the top
        let mut a = vec![0u64; n];
        a[n - 2] = TOP;
        a[n - 1] = TOP - 1;
        v.push(a);
    }
    let (g1, g2) = generic_limbs(ctx.seed);
    v.push((0..n).map(|i| if (i % 2 == 0) ^ divisor { g1 } else { g2 }.rotate_left(5 * i as u32)).collect());
    dedup(v)
}

fn boxed_case(a: &Limbs, d: &Limbs, idx: usize, l: &mut Local) {
    let fam = "boxed_div";
    let (la, lb) = (a.len(), d.len());
    let wname = format!("Boxed<{la}>/<{lb}>");
    let ins: [&[u64]; 2] = [a, d];
    let mut cs = Case::new(l, P, fam, &wname, &ins);
    let (xa, xd) = (bx(a), bx(d));
    let (bn, bd) = (to_big(a), to_big(d));
    if bd.is_zero() {
        if la == lb {
            chk!(cs, "Boxed::checked_div", &Out::None, bopt(xa.checked_div(&xd)));
            chk!(cs, "Boxed:CheckedDiv", &Out::None, bopt(CheckedDiv::checked_div(&xa, &xd)));
        }
        return;
    }
    cs.l.nontrivial += (bn >= bd && !bd.is_one()) as u64;
    if idx % 8 == 0 {
        classify_knuth(&bn, &bd, cs.l);
    }
    let nz = NonZero::new(xd.clone()).unwrap();
    let q = from_big(&(&bn / &bd), la);
    // vartime forms: quotient in the dividend's precision, remainder in the divisor's
    let r_b = from_big(&(&bn % &bd), lb);
    let qr = cat(&q, &r_b);
    chk!(cs, "Boxed::div_rem_vartime", &qr, {
        let (a_, b_) = xa.div_rem_vartime(&nz);
        cat(&bw(&a_), &bw(&b_))
    });
    cs.group();
    chk!(cs, "Boxed::rem_vartime", &Out::v(&r_b), Out::v(&bw(&xa.rem_vartime(&nz))));
    chk!(cs, "Boxed:RemMixed", &Out::v(&r_b), Out::v(&bw(&RemMixed::rem_mixed(&xa, &nz))));
    cs.group();
    let eq = Out::v(&q);
    chk!(cs, "Boxed::wrapping_div_vartime", &eq, Out::v(&bw(&xa.wrapping_div_vartime(&nz))));
    chk!(cs, "Boxed:DivVartime", &eq, Out::v(&bw(&DivVartime::div_vartime(&xa, &nz))));
    if la == lb {
        // constant-time forms require equal precision
        let r = from_big(&(&bn % &bd), la);
        cs.group();
        chk!(cs, "Boxed::div_rem", &cat(&q, &r), {
            let (a_, b_) = xa.div_rem(&nz);
            cat(&bw(&a_), &bw(&b_))
        });
        chk!(cs, "Boxed::div_rem_vartime", &cat(&q, &r), {
            let (a_, b_) = xa.div_rem_vartime(&nz);
            cat(&bw(&a_), &bw(&b_))
        });
        cs.group();
        chk!(cs, "Boxed::wrapping_div_vartime", &eq, Out::v(&bw(&xa.wrapping_div_vartime(&nz))));
        chk!(cs, "Boxed::wrapping_div", &eq, Out::v(&bw(&xa.wrapping_div(&nz))));
        chk!(cs, "Boxed::checked_div", &eq, bopt(xa.checked_div(&xd)));
        chk!(cs, "Boxed:CheckedDiv", &eq, bopt(CheckedDiv::checked_div(&xa, &xd)));
        chk!(cs, "&Boxed/&NonZero", &eq, Out::v(&bw(&(&xa / &nz))));
        chk!(cs, "Boxed/&NonZero", &eq, Out::v(&bw(&(xa.clone() / &nz))));
        chk!(cs, "&Boxed/NonZero", &eq, Out::v(&bw(&(&xa / nz.clone()))));
        chk!(cs, "Boxed/NonZero", &eq, Out::v(&bw(&(xa.clone() / nz.clone()))));
        chk!(cs, "Boxed/=&NonZero", &eq, {
            let mut x = xa.clone();
            x /= &nz;
            Out::v(&bw(&x))
        });
        chk!(cs, "Boxed/=NonZero", &eq, {
            let mut x = xa.clone();
            x /= nz.clone();
            Out::v(&bw(&x))
        });
        chk!(cs, "Wrapping<Boxed>/NonZero", &eq, Out::v(&bw(&(Wrapping(xa.clone()) / nz.clone()).0)));
        chk!(cs, "&Wrapping<Boxed>/NonZero", &eq, Out::v(&bw(&(&Wrapping(xa.clone()) / nz.clone()).0)));
        chk!(cs, "&Wrapping<Boxed>/&NonZero", &eq, Out::v(&bw(&(&Wrapping(xa.clone()) / &nz).0)));
        chk!(cs, "Wrapping<Boxed>/&NonZero", &eq, Out::v(&bw(&(Wrapping(xa.clone()) / &nz).0)));
        chk!(cs, "Wrapping<Boxed>/=&NonZero", &eq, {
            let mut x = Wrapping(xa.clone());
            x /= &nz;
            Out::v(&bw(&x.0))
        });
        chk!(cs, "Wrapping<Boxed>/=NonZero", &eq, {
            let mut x = Wrapping(xa.clone());
            x /= nz.clone();
            Out::v(&bw(&x.0))
        });
        cs.group();
        let er = Out::v(&r);
        chk!(cs, "Boxed::rem", &er, Out::v(&bw(&xa.rem(&nz))));
        chk!(cs, "Boxed::rem_vartime", &er, Out::v(&bw(&xa.rem_vartime(&nz))));
        chk!(cs, "&Boxed%&NonZero", &er, Out::v(&bw(&(&xa % &nz))));
        chk!(cs, "Boxed%&NonZero", &er, Out::v(&bw(&(xa.clone() % &nz))));
        chk!(cs, "&Boxed%NonZero", &er, Out::v(&bw(&(&xa % nz.clone()))));
        chk!(cs, "Boxed%NonZero", &er, Out::v(&bw(&(xa.clone() % nz.clone()))));
        chk!(cs, "Boxed%=&NonZero", &er, {
            let mut x = xa.clone();
            x %= &nz;
            Out::v(&bw(&x))
        });
        chk!(cs, "Boxed%=NonZero", &er, {
            let mut x = xa.clone();
            x %= nz.clone();
            Out::v(&bw(&x))
        });
    }
    // limb forms when the divisor fits a limb
    if bd.bits() <= 64 && (lb == 1 || idx % 4 == 0) {
        let dv = d[0];
        let nzl = NonZero::new(Limb(dv)).unwrap();
        let rec = Reciprocal::new(nzl);
        let r1 = (&bn % dv).to_u64_digits().first().copied().unwrap_or(0);
        cs.group();
        let qr = Out::v2(&q, r1);
        chk!(cs, "Boxed::div_rem_limb", &qr, {
            let (a_, b_) = xa.div_rem_limb(nzl);
            Out::v2(&bw(&a_), b_.0)
        });
        chk!(cs, "Boxed::div_rem_limb_with_reciprocal", &qr, {
            let (a_, b_) = xa.div_rem_limb_with_reciprocal(&rec);
            Out::v2(&bw(&a_), b_.0)
        });
        chk!(cs, "Boxed:DivRemLimb", &qr, {
            let (a_, b_) = DivRemLimb::div_rem_limb(&xa, nzl);
            Out::v2(&bw(&a_), b_.0)
        });
        cs.group();
        let er = Out::Val(vec![r1]);
        chk!(cs, "Boxed::rem_limb", &er, Out::Val(vec![xa.rem_limb(nzl).0]));
        chk!(cs, "Boxed::rem_limb_with_reciprocal", &er, Out::Val(vec![xa.rem_limb_with_reciprocal(&rec).0]));
        chk!(cs, "Boxed:RemLimb", &er, Out::Val(vec![RemLimb::rem_limb(&xa, nzl).0]));
    }
}

fn fam_boxed(ctx: &Ctx) {
    let fam = "boxed_div";
    if !ctx.want(fam) {
        return;
    }
    if let Some(ins) = replay_inputs(ctx) {
        if ins.len() >= 2 {
            ctx.seq(fam, "replay", |l| boxed_case(&ins[0], &ins[1], 0, l));
        }
        return;
    }
    let th = ctx.thorough();
    let lens: Vec<usize> = if th { (1..=70).collect() } else { vec![1, 2, 3, 4, 5, 6, 8, 12, 16, 17, 31, 32, 33, 64, 70] };
    let mut pairs: Vec<(usize, usize)> = lens.iter().map(|&n| (n, n)).collect();
    let small: Vec<usize> = if th { (1..=12).collect() } else { vec![1, 2, 3, 4, 5, 8] };
    for &a in &small {
        for &b in &small {
            pairs.push((a, b));
        }
    }
    for &(a, b) in &[(16, 3), (3, 16), (33, 32), (32, 33), (64, 17), (17, 64), (70, 1), (70, 2), (70, 35), (35, 70), (40, 20), (20, 40)] {
        pairs.push((a, b));
    }
    pairs.sort();
    pairs.dedup();
    let maxn = 70;
    let nsets: Vec<Vec<Limbs>> = (0..=maxn).map(|n| if n == 0 || !pairs.iter().any(|p| p.0 == n) { vec![] } else { boxed_vals(n, ctx, false) }).collect();
    let dsets: Vec<Vec<Limbs>> = (0..=maxn).map(|n| if n == 0 || !pairs.iter().any(|p| p.1 == n) { vec![] } else { boxed_vals(n, ctx, true) }).collect();
    for (la, lb) in pairs {
        // above 20 limbs the thorough sets (every run boundary x every bit length) are stride-thinned: the complete
        // product took 40 min; every width 1..=70 is still visited
        let (ta, td);
        let (sa, sd) = if th && la.max(lb) > 20 {
            ta = thin(nsets[la].clone(), 300);
            td = thin(dsets[lb].clone(), 900);
            (&ta, &td)
        } else {
            (&nsets[la], &dsets[lb])
        };
        let k = sd.len();
        ctx.par_for(fam, &format!("Boxed<{la}>/<{lb}>"), sa.len() * k, |i, l| boxed_case(&sa[i / k], &sd[i % k], i, l));
    }
}

macro_rules! mixrem {
    ($n:literal, $m:literal) => {
        Some(&|a: &Uint<$n>, d: &NonZero<Uint<$m>>| -> Vec<u64> { w(&RemMixed::rem_mixed(a, d)) })
    };
}

fn main() {
    let ctx = Ctx::from_args(P, "exploration");
    ctx.set_rule("E1: dividend x divisor complete products (FULL(n,L9)^2 n<=2, FULL(3,L5)^2, FULL(4,L5) x FULL(4,L3), RUNS for wider) with divisors additionally BITS(n) (every bit length) and the \
        textbook add-back divisor embedded at the top, dividends additionally NEAR(q*d) built from enumerated (q,d); double-width dividends; rem2k for every k in 0..=BITS+1; limb divisors over L13 + all 2^j, 2^j+-1; \
        boxed with independent dividend/divisor precisions. Oracle: BigUint q,r plus the identity n=q*d+r, r<d recomputed from the returned values. class_hits counts the Knuth-D paths (add-back, capped estimate, ...) via an oracle-side classifier. \
        Non-trivial: n >= d and d != 1.");
    ctx.assume("limb values outside the stated alphabets are not explored");
    ctx.assume("oracle = num-bigint division; boxed constant-time forms are only driven with equal precisions (asserted by the implementation)");
    let ctx = &ctx;
    let widths: Vec<usize> = if ctx.thorough() { vec![1, 2, 3, 4, 6, 8, 16, 32, 64] } else { vec![1, 2, 3, 4, 6, 8, 16, 32, 64] };
    for n in widths {
        dispatch!(n, [1, 2, 3, 4, 6, 8, 16, 32, 64], fam_div(ctx));
    }
    fam_mixed::<2, 1>(ctx, None);
    fam_mixed::<1, 2>(ctx, None);
    fam_mixed::<4, 1>(ctx, mixrem!(4, 1));
    fam_mixed::<4, 2>(ctx, None);
    fam_mixed::<4, 3>(ctx, mixrem!(4, 3));
    fam_mixed::<3, 4>(ctx, None);
    fam_mixed::<8, 3>(ctx, mixrem!(8, 3));
    fam_mixed::<8, 5>(ctx, mixrem!(8, 5));
    fam_mixed::<6, 4>(ctx, mixrem!(6, 4));
    fam_mixed::<16, 6>(ctx, mixrem!(16, 6));
    fam_mixed::<16, 15>(ctx, mixrem!(16, 15));
    fam_mixed::<4, 8>(ctx, None);
    fam_boxed(ctx);
    std::process::exit(ctx.finish());
}
