//! C12 — NonZero and Odd wrappers can never hold an invalid value (engines E1 + E4, explicit route table with closure).
//!
//! State = a wrapper value (kind, limbs) obtained through a public route. The explorer starts from every constructor
//! route applied to a value/encoding/RNG-script alphabet, then closes the set under the value-to-value routes
//! (conditional_select with both choices over all pairs, wrapper conversions). The invariant is evaluated on every
//! state; every transition is an application of a real API.
use crypto_bigint::modular::{BoxedMontyParams, MontyParams};
use crypto_bigint::subtle::{Choice, ConditionallySelectable, CtOption};
use crypto_bigint::{ArrayEncoding, BoxedUint, Encoding, Int, Limb, NonZero, Odd, Random, Reciprocal, Uint, Zero};
use core::num::{NonZeroU128, NonZeroU16, NonZeroU32, NonZeroU64, NonZeroU8};
use std::collections::BTreeSet;
use vcommon::rng::{PanicScriptRng, ScriptRng};
use vcommon::*;

const P: &str = "C12";

#[derive(Clone, PartialEq, Eq, PartialOrd, Ord, Debug)]
enum Kind {
    NzLimb,
    NzUint,
    NzInt,
    NzBoxed,
    OddUint,
    OddInt,
    OddBoxed,
}
type State = (Kind, Limbs);

struct Explorer<'a> {
    l: &'a mut Local,
    states: BTreeSet<State>,
    transitions: u64,
    width: String,
}

impl<'a> Explorer<'a> {
    /// record the result of one route application; check the invariant
    fn produce(&mut self, route: &'static str, class: &str, kind: Kind, limbs: Limbs, inputs: Vec<String>) {
        self.transitions += 1;
        self.l.form(route);
        let ok = match kind {
            Kind::NzLimb | Kind::NzUint | Kind::NzInt | Kind::NzBoxed => !is_zero(&limbs),
            Kind::OddUint | Kind::OddInt | Kind::OddBoxed => !limbs.is_empty() && limbs[0] & 1 == 1,
        };
        if !ok {
            self.l.fail(failure(&[P], "wrapper_routes", route, class, self.width.clone(), inputs, "a non-zero / odd wrapped value".into(), format!("{:?} holding {}", kind, hex(&limbs))));
        }
        self.states.insert((kind, limbs));
    }
    /// a route that must fail (none / Err / documented panic) for this input
    fn reject(&mut self, route: &'static str, class: &str, rejected: Result<bool, String>, allow_panic: bool, inputs: Vec<String>) {
        self.transitions += 1;
        self.l.form(route);
        let ok = match &rejected {
            Ok(r) => *r,
            Err(_) => allow_panic,
        };
        if !ok {
            let props: &[&'static str] = if rejected.is_err() { &[P, "C11"] } else { &[P] };
            self.l.fail(failure(props, "wrapper_routes", route, class, self.width.clone(), inputs, "rejected (none / error)".into(), format!("{rejected:?}")));
        }
    }
    /// decoded value must equal the oracle for the stated byte order
    fn decoded(&mut self, route: &'static str, got: Result<Option<Limbs>, String>, expected: Option<&Limbs>, inputs: Vec<String>) {
        self.l.form(route);
        self.transitions += 1;
        let ok = match (&got, expected) {
            (Ok(Some(g)), Some(e)) => g == e,
            (Ok(None), None) => true,
            _ => false,
        };
        if !ok {
            let props: &[&'static str] = if got.is_err() { &[P, "C11"] } else { &[P] };
            self.l.fail(failure(props, "wrapper_routes", route, "any", self.width.clone(), inputs, format!("{:?}", expected.map(|e| hex(e))), format!("{:?}", got.map(|o| o.map(|g| hex(&g))))));
        }
    }
}

fn ct<T>(o: CtOption<T>) -> Option<T> {
    Option::from(o)
}

fn values(n: usize, seed: u64, th: bool) -> Vec<Limbs> {
    let mut v = if n == 1 { full(1, &l13(seed)) } else { full(n.min(2), &l5()).into_iter().map(|x| resize(&x, n)).collect() };
    v.extend(runs(n, &l5(), 2));
    if th {
        // thorough: L9 runs (three runs), every single-bit value and its neighbours
        v.extend(runs(n, &l9(), if n <= 4 { 3 } else { 2 }));
        for x in bits(n) {
            v.push(x);
        }
    }
    v.push(vec![2; n]);
    v.push(resize(&[3], n));
    v.push(resize(&[2], n));
    let mut top = vec![0u64; n];
    top[n - 1] = 1;
    v.push(top.clone());
    top[n - 1] = TOP;
    v.push(top);
    dedup(v)
}

fn explore<const N: usize>(ctx: &Ctx)
where
    Uint<N>: Encoding + ArrayEncoding,
{
    let wname = format!("N={N}");
    ctx.seq("wrapper_routes", &wname, |l| {
        let mut ex = Explorer { l, states: BTreeSet::new(), transitions: 0, width: wname.clone() };
        let vals = values(N, ctx.seed, ctx.thorough());
        // ------------------------------------------------------------------ constructor routes
        for a in &vals {
            let inp = vec![hex(a)];
            let ua = u::<N>(a);
            let ia: Int<N> = ua.as_int();
            let xa = bx(a);
            let zero = is_zero(a);
            let odd = a[0] & 1 == 1;
            ex.l.cases += 1;
            ex.l.nontrivial += (!zero) as u64;
            // NonZero<Uint>
            match guard(|| ct(NonZero::new(ua))) {
                Ok(Some(nz)) if !zero => ex.produce("NonZero::new(Uint)", "any", Kind::NzUint, w(nz.as_ref()), inp.clone()),
                r => ex.reject("NonZero::new(Uint) on zero", "any", r.map(|o| o.is_none() && zero), false, inp.clone()),
            }
            match guard(|| Option::<NonZero<Uint<N>>>::from(ua.to_nz())) {
                Ok(Some(nz)) if !zero => ex.produce("Uint::to_nz", "any", Kind::NzUint, w(nz.as_ref()), inp.clone()),
                r => ex.reject("Uint::to_nz on zero", "any", r.map(|o| o.is_none() && zero), false, inp.clone()),
            }
            match guard(|| NonZero::<Uint<N>>::new_unwrap(ua)) {
                Ok(nz) => ex.produce("NonZero::<Uint>::new_unwrap", "any", Kind::NzUint, w(nz.as_ref()), inp.clone()),
                Err(m) => ex.reject("NonZero::<Uint>::new_unwrap on zero", "any", Err(m), zero, inp.clone()),
            }
            match guard(|| ua.to_nz().expect("nz")) {
                Ok(nz) => ex.produce("ConstCtOption<NonZero<Uint>>::expect", "any", Kind::NzUint, w(nz.as_ref()), inp.clone()),
                Err(m) => ex.reject("ConstCtOption<NonZero<Uint>>::expect on zero", "any", Err(m), zero, inp.clone()),
            }
            // NonZero<Int>
            match guard(|| ct(NonZero::new(ia))) {
                Ok(Some(nz)) if !zero => {
                    ex.produce("NonZero::new(Int)", "any", Kind::NzInt, w(nz.as_ref().as_uint()), inp.clone());
                    if let Ok((m, _s)) = guard(|| nz.abs_sign()) {
                        ex.produce("NonZero<Int>::abs_sign", "any", Kind::NzUint, w(m.as_ref()), inp.clone());
                    }
                }
                r => ex.reject("NonZero::new(Int) on zero", "any", r.map(|o| o.is_none() && zero), false, inp.clone()),
            }
            match guard(|| Option::<NonZero<Int<N>>>::from(ia.to_nz())) {
                Ok(Some(nz)) if !zero => ex.produce("Int::to_nz", "any", Kind::NzInt, w(nz.as_ref().as_uint()), inp.clone()),
                r => ex.reject("Int::to_nz on zero", "any", r.map(|o| o.is_none() && zero), false, inp.clone()),
            }
            // NonZero<BoxedUint>
            match guard(|| ct(NonZero::new(xa.clone()))) {
                Ok(Some(nz)) if !zero => ex.produce("NonZero::new(Boxed)", "any", Kind::NzBoxed, bw(nz.as_ref()), inp.clone()),
                r => ex.reject("NonZero::new(Boxed) on zero", "any", r.map(|o| o.is_none() && zero), false, inp.clone()),
            }
            // transformations of an already valid NonZero<BoxedUint>: widen to every precision 64..=64(N+2); a smaller
            // target must be refused (documented panic), never produce a truncated - possibly zero - wrapper
            if !zero {
                if let Ok(Some(nz)) = guard(|| ct(NonZero::new(xa.clone()))) {
                    for tl in 1..=N + 2 {
                        let prec = 64 * tl as u32;
                        let inp2 = vec![inp[0].clone(), format!("widen to {prec} bits")];
                        match guard(|| nz.widen(prec)) {
                            Ok(wd) if tl >= N => ex.produce("NonZero<Boxed>::widen", "any", Kind::NzBoxed, bw(wd.as_ref()), inp2),
                            Ok(wd) => ex.reject("NonZero<Boxed>::widen to a smaller precision", "any", Ok(false && is_zero(&bw(wd.as_ref()))), true, inp2),
                            Err(m) => ex.reject("NonZero<Boxed>::widen to a smaller precision", "any", Err(m), tl < N, inp2),
                        }
                    }
                }
            }
            // NonZero<Limb>
            let la = Limb(a[0]);
            let lz = a[0] == 0;
            match guard(|| ct(NonZero::new(la))) {
                Ok(Some(nz)) if !lz => ex.produce("NonZero::new(Limb)", "any", Kind::NzLimb, vec![nz.as_ref().0], inp.clone()),
                r => ex.reject("NonZero::new(Limb) on zero", "any", r.map(|o| o.is_none() && lz), false, inp.clone()),
            }
            // the panicking accessor of the option: a value for a non-zero limb, the documented panic for zero
            match guard(|| la.to_nz().expect("nz")) {
                Ok(nz) => ex.produce("ConstCtOption<NonZero<Limb>>::expect", "any", Kind::NzLimb, vec![nz.as_ref().0], inp.clone()),
                Err(m) => ex.reject("ConstCtOption<NonZero<Limb>>::expect on zero", "any", Err(m), lz, inp.clone()),
            }
            match guard(|| Option::<NonZero<Limb>>::from(la.to_nz())) {
                Ok(Some(nz)) if !lz => ex.produce("Limb::to_nz", "any", Kind::NzLimb, vec![nz.as_ref().0], inp.clone()),
                r => ex.reject("Limb::to_nz on zero", "any", r.map(|o| o.is_none() && lz), false, inp.clone()),
            }
            match guard(|| NonZero::<Limb>::new_unwrap(la)) {
                Ok(nz) => ex.produce("NonZero::<Limb>::new_unwrap", "any", Kind::NzLimb, vec![nz.as_ref().0], inp.clone()),
                Err(m) => ex.reject("NonZero::<Limb>::new_unwrap on zero", "any", Err(m), lz, inp.clone()),
            }
            // Odd<Uint> / Odd<Int> / Odd<Boxed>
            match guard(|| ct(Odd::new(ua))) {
                Ok(Some(o)) if odd => {
                    ex.produce("Odd::new(Uint)", "any", Kind::OddUint, w(o.as_ref()), inp.clone());
                    // conversions of a valid Odd
                    ex.produce("Odd::as_nz_ref", "any", Kind::NzUint, w(o.as_nz_ref().as_ref()), inp.clone());
                    let r: &NonZero<Uint<N>> = AsRef::<NonZero<Uint<N>>>::as_ref(&o);
                    ex.produce("Odd:AsRef<NonZero>", "any", Kind::NzUint, w(r.as_ref()), inp.clone());
                    ex.produce("Odd<Boxed>:From<Odd<Uint>>", "any", Kind::OddBoxed, bw(Odd::<BoxedUint>::from(o).as_ref()), inp.clone());
                    ex.produce("Odd<Boxed>:From<&Odd<Uint>>", "any", Kind::OddBoxed, bw(Odd::<BoxedUint>::from(&o).as_ref()), inp.clone());
                    // consumers accept every produced value without panicking
                    match guard(|| *MontyParams::new_vartime(o).modulus()) {
                        Ok(m) => ex.produce("MontyParams::modulus", "any", Kind::OddUint, w(m.as_ref()), inp.clone()),
                        Err(e) => ex.reject("MontyParams::new_vartime(valid Odd)", "any", Err(e), false, inp.clone()),
                    }
                    match guard(|| BoxedMontyParams::new(Odd::<BoxedUint>::from(o)).modulus().clone()) {
                        Ok(m) => ex.produce("BoxedMontyParams::modulus", "any", Kind::OddBoxed, bw(m.as_ref()), inp.clone()),
                        Err(e) => ex.reject("BoxedMontyParams::new(valid Odd)", "any", Err(e), false, inp.clone()),
                    }
                }
                r => ex.reject("Odd::new(Uint) on even", "any", r.map(|o| o.is_none() && !odd), false, inp.clone()),
            }
            match guard(|| Option::<Odd<Uint<N>>>::from(ua.to_odd())) {
                Ok(Some(o)) if odd => ex.produce("Uint::to_odd", "any", Kind::OddUint, w(o.as_ref()), inp.clone()),
                r => ex.reject("Uint::to_odd on even", "any", r.map(|o| o.is_none() && !odd), false, inp.clone()),
            }
            match guard(|| ua.to_odd().expect("odd")) {
                Ok(o) => ex.produce("ConstCtOption<Odd<Uint>>::expect", "any", Kind::OddUint, w(o.as_ref()), inp.clone()),
                Err(m) => ex.reject("ConstCtOption<Odd<Uint>>::expect on even", "any", Err(m), !odd, inp.clone()),
            }
            match guard(|| Option::<Odd<Int<N>>>::from(ia.to_odd())) {
                Ok(Some(o)) if odd => ex.produce("Int::to_odd", "any", Kind::OddInt, w(o.as_ref().as_uint()), inp.clone()),
                r => ex.reject("Int::to_odd on even", "any", r.map(|o| o.is_none() && !odd), false, inp.clone()),
            }
            match guard(|| ct(xa.to_odd())) {
                Ok(Some(o)) if odd => ex.produce("Boxed::to_odd", "any", Kind::OddBoxed, bw(o.as_ref()), inp.clone()),
                r => ex.reject("Boxed::to_odd on even", "any", r.map(|o| o.is_none() && !odd), false, inp.clone()),
            }
            match guard(|| ct(Odd::new(xa.clone()))) {
                Ok(Some(o)) if odd => ex.produce("Odd::new(Boxed)", "any", Kind::OddBoxed, bw(o.as_ref()), inp.clone()),
                r => ex.reject("Odd::new(Boxed) on even", "any", r.map(|o| o.is_none() && !odd), false, inp.clone()),
            }
            // ---------------- decoding routes, both byte orders (stated order must be honoured)
            let be = Encoding::to_be_bytes(&ua);
            let le = Encoding::to_le_bytes(&ua);
            let exp = if zero { None } else { Some(a) };
            ex.decoded("NonZero::from_be_bytes", guard(|| ct(NonZero::<Uint<N>>::from_be_bytes(be)).map(|x| w(x.as_ref()))), exp, inp.clone());
            ex.decoded("NonZero::from_le_bytes", guard(|| ct(NonZero::<Uint<N>>::from_le_bytes(le)).map(|x| w(x.as_ref()))), exp, inp.clone());
            // hybrid-array decoders of the wrapper (stated byte order)
            ex.decoded("NonZero::from_be_byte_array", guard(|| ct(NonZero::<Uint<N>>::from_be_byte_array(ua.to_be_byte_array())).map(|x| w(x.as_ref()))), exp, inp.clone());
            ex.decoded("NonZero::from_le_byte_array", guard(|| ct(NonZero::<Uint<N>>::from_le_byte_array(ua.to_le_byte_array())).map(|x| w(x.as_ref()))), exp, inp.clone());
            if !zero {
                ex.produce("NonZero::from_be_bytes", "any", Kind::NzUint, ct(NonZero::<Uint<N>>::from_be_bytes(be)).map(|x| w(x.as_ref())).unwrap_or(vec![0; N]), inp.clone());
                ex.produce("NonZero::from_le_bytes", "any", Kind::NzUint, ct(NonZero::<Uint<N>>::from_le_bytes(le)).map(|x| w(x.as_ref())).unwrap_or(vec![0; N]), inp.clone());
            }
            // byte-swapped value decoded in the *other* order must give the swapped value (never silently the same)
            let hex_be: String = be.as_ref().iter().map(|b| format!("{b:02x}")).collect();
            let hex_le: String = le.as_ref().iter().map(|b| format!("{b:02x}")).collect();
            match guard(|| Odd::<Uint<N>>::from_be_hex(&hex_be)) {
                Ok(o) => {
                    ex.decoded("Odd::from_be_hex value", Ok(Some(w(o.as_ref()))), Some(a), inp.clone());
                    ex.produce("Odd::from_be_hex", "any", Kind::OddUint, w(o.as_ref()), inp.clone());
                }
                Err(m) => ex.reject("Odd::from_be_hex on even", "any", Err(m), !odd, inp.clone()),
            }
            match guard(|| Odd::<Uint<N>>::from_le_hex(&hex_le)) {
                Ok(o) => {
                    ex.decoded("Odd::from_le_hex value", Ok(Some(w(o.as_ref()))), Some(a), inp.clone());
                    ex.produce("Odd::from_le_hex", "any", Kind::OddUint, w(o.as_ref()), inp.clone());
                }
                Err(m) => ex.reject("Odd::from_le_hex on even", "any", Err(m), !odd, inp.clone()),
            }
            // serde (bincode): the serialized inner value, deserialized as a wrapper
            let ser = bincode::serialize(&ua).unwrap();
            match guard(|| bincode::deserialize::<NonZero<Uint<N>>>(&ser).ok()) {
                Ok(Some(nz)) if !zero => ex.produce("NonZero:Deserialize", "any", Kind::NzUint, w(nz.as_ref()), inp.clone()),
                r => ex.reject("NonZero:Deserialize of zero", "any", r.map(|o| o.is_none() && zero), false, inp.clone()),
            }
            match guard(|| bincode::deserialize::<Odd<Uint<N>>>(&ser).ok()) {
                Ok(Some(o)) if odd => ex.produce("Odd:Deserialize", "any", Kind::OddUint, w(o.as_ref()), inp.clone()),
                r => ex.reject("Odd:Deserialize of even", "any", r.map(|o| o.is_none() && !odd), false, inp.clone()),
            }
        }
        // ------------------------------------------------------------------ constants and defaults
        let none = vec!["()".to_string()];
        ex.produce("NonZero::<Uint>::ONE", "any", Kind::NzUint, w(NonZero::<Uint<N>>::ONE.as_ref()), none.clone());
        ex.produce("NonZero::<Uint>::MAX", "any", Kind::NzUint, w(NonZero::<Uint<N>>::MAX.as_ref()), none.clone());
        ex.produce("NonZero::<Int>::ONE", "any", Kind::NzInt, w(NonZero::<Int<N>>::ONE.as_ref().as_uint()), none.clone());
        ex.produce("NonZero::<Int>::MAX", "any", Kind::NzInt, w(NonZero::<Int<N>>::MAX.as_ref().as_uint()), none.clone());
        ex.produce("NonZero::<Limb>::ONE", "any", Kind::NzLimb, vec![NonZero::<Limb>::ONE.as_ref().0], none.clone());
        ex.produce("NonZero::<Limb>::MAX", "any", Kind::NzLimb, vec![NonZero::<Limb>::MAX.as_ref().0], none.clone());
        ex.produce("NonZero::<Uint>::default", "any", Kind::NzUint, w(NonZero::<Uint<N>>::default().as_ref()), none.clone());
        ex.produce("NonZero::<Int>::default", "any", Kind::NzInt, w(NonZero::<Int<N>>::default().as_ref().as_uint()), none.clone());
        ex.produce("NonZero::<Limb>::default", "any", Kind::NzLimb, vec![NonZero::<Limb>::default().as_ref().0], none.clone());
        ex.produce("Odd::<Uint>::default", "default", Kind::OddUint, w(Odd::<Uint<N>>::default().as_ref()), none.clone());
        ex.produce("Odd::<Int>::default", "default", Kind::OddInt, w(Odd::<Int<N>>::default().as_ref().as_uint()), none.clone());
        ex.produce("Odd::<Boxed>::default", "default", Kind::OddBoxed, bw(Odd::<BoxedUint>::default().as_ref()), none.clone());
        // CtOption::map substitutes Default for a none: the mapped (discarded) value must still be a valid wrapper
        let mapped = NonZero::new(Uint::<N>::ZERO).map(|nz| nz);
        ex.produce("CtOption<NonZero>::map on none (inner dummy)", "dummy", Kind::NzUint, w(mapped.unwrap_or(NonZero::default()).as_ref()), none.clone());
        // ------------------------------------------------------------------ primitives
        for p in [1u128, 2, 3, 255, 256, 65535, 65536, u32::MAX as u128, 1 << 32, u64::MAX as u128, 1 << 64, 3 << 64, 1 << 100, 1 << 127, (u64::MAX as u128) << 64, u128::MAX] {
            let inp = vec![format!("{p:#x}")];
            if let Ok(x) = u8::try_from(p) {
                let z = NonZeroU8::new(x).unwrap();
                ex.produce("NonZero::<Uint>::from_u8", "any", Kind::NzUint, w(NonZero::<Uint<N>>::from_u8(z).as_ref()), inp.clone());
                ex.produce("NonZero<Uint>:From<NonZeroU8>", "any", Kind::NzUint, w(NonZero::<Uint<N>>::from(z).as_ref()), inp.clone());
                ex.produce("NonZero::<Limb>::from_u8", "any", Kind::NzLimb, vec![NonZero::<Limb>::from_u8(z).as_ref().0], inp.clone());
                ex.produce("NonZero<Limb>:From<NonZeroU8>", "any", Kind::NzLimb, vec![NonZero::<Limb>::from(z).as_ref().0], inp.clone());
            }
            if let Ok(x) = u16::try_from(p) {
                let z = NonZeroU16::new(x).unwrap();
                ex.produce("NonZero::<Uint>::from_u16", "any", Kind::NzUint, w(NonZero::<Uint<N>>::from_u16(z).as_ref()), inp.clone());
                ex.produce("NonZero<Uint>:From<NonZeroU16>", "any", Kind::NzUint, w(NonZero::<Uint<N>>::from(z).as_ref()), inp.clone());
                ex.produce("NonZero::<Limb>::from_u16", "any", Kind::NzLimb, vec![NonZero::<Limb>::from_u16(z).as_ref().0], inp.clone());
                ex.produce("NonZero<Limb>:From<NonZeroU16>", "any", Kind::NzLimb, vec![NonZero::<Limb>::from(z).as_ref().0], inp.clone());
            }
            if let Ok(x) = u32::try_from(p) {
                let z = NonZeroU32::new(x).unwrap();
                ex.produce("NonZero::<Uint>::from_u32", "any", Kind::NzUint, w(NonZero::<Uint<N>>::from_u32(z).as_ref()), inp.clone());
                ex.produce("NonZero<Uint>:From<NonZeroU32>", "any", Kind::NzUint, w(NonZero::<Uint<N>>::from(z).as_ref()), inp.clone());
                ex.produce("NonZero::<Limb>::from_u32", "any", Kind::NzLimb, vec![NonZero::<Limb>::from_u32(z).as_ref().0], inp.clone());
                ex.produce("NonZero<Limb>:From<NonZeroU32>", "any", Kind::NzLimb, vec![NonZero::<Limb>::from(z).as_ref().0], inp.clone());
            }
            if let Ok(x) = u64::try_from(p) {
                let z = NonZeroU64::new(x).unwrap();
                ex.produce("NonZero::<Uint>::from_u64", "any", Kind::NzUint, w(NonZero::<Uint<N>>::from_u64(z).as_ref()), inp.clone());
                ex.produce("NonZero<Uint>:From<NonZeroU64>", "any", Kind::NzUint, w(NonZero::<Uint<N>>::from(z).as_ref()), inp.clone());
                ex.produce("NonZero::<Limb>::from_u64", "any", Kind::NzLimb, vec![NonZero::<Limb>::from_u64(z).as_ref().0], inp.clone());
                ex.produce("NonZero<Limb>:From<NonZeroU64>", "any", Kind::NzLimb, vec![NonZero::<Limb>::from(z).as_ref().0], inp.clone());
            }
            if N >= 2 {
                let z = NonZeroU128::new(p).unwrap();
                match guard(|| (w(NonZero::<Uint<N>>::from_u128(z).as_ref()), w(NonZero::<Uint<N>>::from(z).as_ref()))) {
                    Ok((x, y)) => {
                        let e = resize(&[p as u64, (p >> 64) as u64], N);
                        ex.decoded("NonZero::<Uint>::from_u128 value", Ok(Some(x.clone())), Some(&e), inp.clone());
                        ex.produce("NonZero::<Uint>::from_u128", "any", Kind::NzUint, x, inp.clone());
                        ex.produce("NonZero<Uint>:From<NonZeroU128>", "any", Kind::NzUint, y, inp.clone());
                    }
                    Err(m) => ex.reject("NonZero::<Uint>::from_u128", "any", Err(m), false, inp.clone()),
                }
            }
        }
        // ------------------------------------------------------------------ RNG routes (E4): scripts whose first 0..=3 draws are zero / even
        let w_alpha = [0u64, 2, MAX - 1, 1, MAX, TOP];
        let draws = N; // words per Uint draw
        let mut scripts: Vec<Vec<u64>> = Vec::new();
        for zeros in 0..=3usize {
            for &tail in &w_alpha {
                for &fill in &[0u64, tail] {
                    let mut s = vec![0u64; zeros * draws];
                    // final draw: low word `tail`, other words `fill`
                    let mut d = vec![fill; draws];
                    d[0] = tail;
                    s.extend(d);
                    scripts.push(s);
                }
            }
        }
        scripts.sort();
        scripts.dedup();
        for s in &scripts {
            let inp = vec![format!("rng words {}", hex(s))];
            ex.l.cases += 1;
            // NonZero<Uint>::try_random: either a non-zero value or "needs more than the script" (Err)
            match guard(|| NonZero::<Uint<N>>::try_random(&mut ScriptRng::from_words(s))) {
                Ok(Ok(nz)) => ex.produce("NonZero<Uint>::try_random", "any", Kind::NzUint, w(nz.as_ref()), inp.clone()),
                Ok(Err(_)) => ex.reject("NonZero<Uint>::try_random (script exhausted)", "any", Ok(true), false, inp.clone()),
                Err(m) => ex.reject("NonZero<Uint>::try_random", "any", Err(m), false, inp.clone()),
            }
            match guard(|| NonZero::<Uint<N>>::random(&mut PanicScriptRng(ScriptRng::from_words(s)))) {
                Ok(nz) => ex.produce("NonZero<Uint>::random", "any", Kind::NzUint, w(nz.as_ref()), inp.clone()),
                Err(m) => ex.reject("NonZero<Uint>::random (script exhausted)", "any", Ok(m.contains("script exhausted")), false, inp.clone()),
            }
            match guard(|| NonZero::<Int<N>>::try_random(&mut ScriptRng::from_words(s))) {
                Ok(Ok(nz)) => ex.produce("NonZero<Int>::try_random", "any", Kind::NzInt, w(nz.as_ref().as_uint()), inp.clone()),
                Ok(Err(_)) => ex.reject("NonZero<Int>::try_random (script exhausted)", "any", Ok(true), false, inp.clone()),
                Err(m) => ex.reject("NonZero<Int>::try_random", "any", Err(m), false, inp.clone()),
            }
            match guard(|| NonZero::<Limb>::try_random(&mut ScriptRng::from_words(s))) {
                Ok(Ok(nz)) => ex.produce("NonZero<Limb>::try_random", "any", Kind::NzLimb, vec![nz.as_ref().0], inp.clone()),
                Ok(Err(_)) => ex.reject("NonZero<Limb>::try_random (script exhausted)", "any", Ok(true), false, inp.clone()),
                Err(m) => ex.reject("NonZero<Limb>::try_random", "any", Err(m), false, inp.clone()),
            }
            match guard(|| Odd::<Uint<N>>::try_random(&mut ScriptRng::from_words(s))) {
                Ok(Ok(o)) => ex.produce("Odd<Uint>::try_random", "any", Kind::OddUint, w(o.as_ref()), inp.clone()),
                Ok(Err(_)) => ex.reject("Odd<Uint>::try_random (script exhausted)", "any", Ok(true), false, inp.clone()),
                Err(m) => ex.reject("Odd<Uint>::try_random", "any", Err(m), false, inp.clone()),
            }
            for bl in [0u32, 1, 2, 63, 64, 65, 64 * N as u32] {
                match guard(|| Odd::<BoxedUint>::random(&mut ScriptRng::from_words(s), bl)) {
                    Ok(o) => ex.produce("Odd::<Boxed>::random", "any", Kind::OddBoxed, bw(o.as_ref()), vec![inp[0].clone(), format!("bit_length={bl}")]),
                    Err(m) => ex.reject("Odd::<Boxed>::random (script exhausted)", "any", Ok(m.contains("try_random_bits")), false, inp.clone()),
                }
            }
        }
        // ------------------------------------------------------------------ closure under conditional_select (both choices, all pairs)
        let mut depth = 0;
        loop {
            let before = ex.states.len();
            // states violating the invariant were reported when produced; they cannot be fed back into the typed API
            let snapshot: Vec<State> = ex.states.iter().filter(|(k, v)| match k {
                Kind::NzLimb | Kind::NzUint | Kind::NzInt | Kind::NzBoxed => !is_zero(v),
                _ => v[0] & 1 == 1,
            }).cloned().collect();
            for kind in [Kind::NzUint, Kind::NzInt, Kind::NzLimb, Kind::OddUint, Kind::OddInt] {
                let xs: Vec<&Limbs> = snapshot.iter().filter(|s| s.0 == kind).map(|s| &s.1).collect();
                // thin the quadratic closure: every value against a structured subset
                let ys: Vec<&Limbs> = xs.iter().step_by((xs.len() / 24).max(1)).copied().collect();
                for x in &xs {
                    for y in &ys {
                        for ch in [0u8, 1] {
                            let c = Choice::from(ch);
                            let inp = vec![hex(x), hex(y), format!("choice={ch}")];
                            let r = match kind {
                                Kind::NzUint => guard(|| w(NonZero::conditional_select(&NonZero::<Uint<N>>::new_unwrap(u::<N>(x)), &NonZero::<Uint<N>>::new_unwrap(u::<N>(y)), c).as_ref())),
                                Kind::NzInt => guard(|| w(NonZero::conditional_select(&ct(NonZero::new(u::<N>(x).as_int())).unwrap(), &ct(NonZero::new(u::<N>(y).as_int())).unwrap(), c).as_ref().as_uint())),
                                Kind::NzLimb => guard(|| vec![NonZero::conditional_select(&NonZero::<Limb>::new_unwrap(Limb(x[0])), &NonZero::<Limb>::new_unwrap(Limb(y[0])), c).as_ref().0]),
                                Kind::OddUint => guard(|| w(Odd::conditional_select(&ct(Odd::new(u::<N>(x))).unwrap(), &ct(Odd::new(u::<N>(y))).unwrap(), c).as_ref())),
                                _ => guard(|| w(Odd::conditional_select(&Option::<Odd<Int<N>>>::from(u::<N>(x).as_int().to_odd()).unwrap(), &Option::<Odd<Int<N>>>::from(u::<N>(y).as_int().to_odd()).unwrap(), c).as_ref().as_uint())),
                            };
                            match r {
                                Ok(v) => {
                                    let want = if ch == 1 { (*y).clone() } else { (*x).clone() };
                                    if v != want {
                                        ex.decoded("conditional_select returns the chosen operand", Ok(Some(v.clone())), Some(&want), inp.clone());
                                    }
                                    ex.produce("conditional_select", "any", kind.clone(), v, inp);
                                }
                                Err(m) => ex.reject("conditional_select between valid values", "any", Err(m), false, inp),
                            }
                        }
                    }
                }
            }
            depth += 1;
            if ex.states.len() == before || depth >= 3 {
                break;
            }
        }
        // ------------------------------------------------------------------ consumers never observe a zero divisor / even modulus
        let snapshot: Vec<State> = ex.states.iter().cloned().collect();
        for (kind, v) in &snapshot {
            let inp = vec![format!("{kind:?}"), hex(v)];
            match kind {
                Kind::NzUint if !is_zero(v) => {
                    let d = NonZero::<Uint<N>>::new_unwrap(u::<N>(v));
                    ex.reject("consumer Uint::div_rem", "any", guard(|| Uint::<N>::MAX.div_rem(&d)).map(|_| true), false, inp);
                }
                Kind::NzLimb if v[0] != 0 => {
                    let d = NonZero::<Limb>::new_unwrap(Limb(v[0]));
                    ex.reject("consumer Reciprocal::new", "any", guard(|| Reciprocal::new(d)).map(|_| true), false, inp);
                }
                Kind::OddUint if v[0] & 1 == 1 => {
                    let m = ct(Odd::new(u::<N>(v))).unwrap();
                    ex.reject("consumer MontyParams::new_vartime", "any", guard(|| MontyParams::new_vartime(m)).map(|_| true), false, inp);
                }
                _ => {}
            }
        }
        ctx.states.fetch_add(ex.states.len() as u64, std::sync::atomic::Ordering::Relaxed);
        ctx.transitions.fetch_add(ex.transitions, std::sync::atomic::Ordering::Relaxed);
        let sample = format!("wrapper_routes N={N}: {} states, {} transitions, closure depth {depth}", ex.states.len(), ex.transitions);
        ex.l.samples.push(sample);
        let _ = Zero::is_zero(&Uint::<N>::ZERO);
    });
}

/// integers with NO limbs (Uint<0>, a BoxedUint built from an empty limb slice) have the value 0: no route may wrap them
fn explore_zero_limb(ctx: &Ctx) {
    ctx.seq("wrapper_routes", "N=0", |l| {
        let mut ex = Explorer { l, states: BTreeSet::new(), transitions: 0, width: "N=0".into() };
        let inp = vec!["[] (zero limbs)".to_string()];
        let z = Uint::<0>::new([]);
        ex.l.cases += 1;
        ex.reject("Odd::new(Uint<0>)", "zero_limbs", guard(|| !bool::from(Odd::new(z).is_some())), false, inp.clone());
        // (Uint<0>::to_odd indexes limb 0 and panics: Uint<0> is outside the supported widths - ZERO does not even compile -
        //  so that is not a finding; only the trait-level routes that are total for it are driven)
        // (NonZero::new / to_nz of Uint<0> do not compile: Uint::<0>::ZERO is rejected at compile time)
        ex.reject("Integer::is_odd(Uint<0>)", "zero_limbs", guard(|| !bool::from(crypto_bigint::Integer::is_odd(&z))), false, inp.clone());
        let e: &[Limb] = &[];
        let b = BoxedUint::from(e);
        ex.l.cases += 1;
        let inp = vec![format!("BoxedUint::from(&[] as &[Limb]) ({} limbs)", b.nlimbs())];
        ex.reject("Odd::new(Boxed, no limbs)", "zero_limbs", guard(|| !bool::from(Odd::new(b.clone()).is_some())), false, inp.clone());
        ex.reject("Boxed::to_odd (no limbs)", "zero_limbs", guard(|| !bool::from(b.to_odd().is_some())), false, inp.clone());
        ex.reject("NonZero::new(Boxed, no limbs)", "zero_limbs", guard(|| !bool::from(NonZero::new(b.clone()).is_some())), false, inp.clone());
        ex.reject("Integer::is_odd(Boxed, no limbs)", "zero_limbs", guard(|| !bool::from(crypto_bigint::Integer::is_odd(&b))), false, inp.clone());
        ex.l.evals += ex.transitions;
    });
}

fn main() {
    let ctx = Ctx::from_args(P, "exploration");
    ctx.set_rule("E1+E4 route closure: every public route producing NonZero<T> / Odd<T> (T in Limb, Uint<N>, Int<N>, BoxedUint; N in 1,2,4): new / new_unwrap / to_nz / to_odd / expect / constants / Default / primitives NonZeroU8..U128 / \
        from_be|le_bytes / from_be|le_hex / serde Deserialize / abs_sign / as_nz_ref / From<Odd<Uint>> / MontyParams::modulus / Random with scripted RNG streams whose first 0..=3 draws are zero or even, applied to the value alphabet \
        {0,1,2,3,MAX,MAX-1, even/odd L13/L5 patterns}; the produced set is closed under conditional_select (both choices). Invariant on every produced state: != 0 / odd, decoded value = oracle for the stated byte order; consumers (div_rem, Reciprocal::new, inv_odd_mod) accept every produced value. \
        Non-trivial: non-zero input value.");
    ctx.assume("zeroize is not a route (documented destructive wipe)");
    ctx.assume("limb values outside the stated alphabets and RNG words outside {0,2,MAX-1,1,MAX,2^63} are not explored");
    let ctx = &ctx;
    explore::<1>(ctx);
    explore::<2>(ctx);
    explore::<4>(ctx);
    if ctx.thorough() {
        explore::<3>(ctx);
        explore::<8>(ctx);
    }
    explore_zero_limb(ctx);
    std::process::exit(ctx.finish());
}
