//! C08 — Montgomery-form values stay canonical and track Z/mZ over any operation history
//! (engine E2: explicit-state search with stateright over the REAL MontyForm / BoxedMontyForm / ConstMontyForm operations).
//!
//! State = (Montgomery representatives of two registers x, y) + (reference residues a, b) + depth + verdict.
//! Action = one public operation. `next_state` rebuilds the real objects from the snapshot (`from_montgomery`) and
//! calls the real method, so every transition is a trace validated against the implementation.
use crypto_bigint::modular::{
    BoxedMontyForm, BoxedMontyParams, ConstMontyForm, ConstMontyParams, MontyForm, MontyParams,
};
use crypto_bigint::subtle::{Choice, ConditionallySelectable};
use crypto_bigint::{impl_modulus, BoxedUint, Monty, MontyMultiplier, Odd, U128, U192, U256, U64};
use num_bigint::BigUint;
use num_traits::{One, Zero};
use serde_json::json;
use stateright::{Checker, Model, Property};
use std::sync::atomic::{AtomicU64, Ordering};
use std::sync::Arc;
use vcommon::*;

const P: &str = "C08";

#[derive(Clone, Copy, Debug, PartialEq, Eq, Hash)]
enum Op {
    AddVV, AddRR, AddVR, AddRV, AddAssignR, AddAssignV, AddInh,
    SubVV, SubRR, SubVR, SubRV, SubAssignR, SubAssignV, SubInh,
    MulVV, MulRR, MulVR, MulRV, MulAssignR, MulAssignV, MulInh, MulMultiplier, MultiplierMulThenSquare,
    NegV, NegR, NegInh,
    SquareInh, SquareTrait, SquareAssign, SquareMultiplier,
    DoubleInh, DoubleTrait,
    HalveInh, HalveTrait, HalveAssign,
    Zero, One, New(u8),
    Swap, Select0, Select1, RoundTrip, CopyMont,
}

const BASE_OPS: &[Op] = &[
    Op::AddVV, Op::AddRR, Op::AddVR, Op::AddRV, Op::AddAssignR, Op::AddAssignV, Op::AddInh,
    Op::SubVV, Op::SubRR, Op::SubVR, Op::SubRV, Op::SubAssignR, Op::SubAssignV, Op::SubInh,
    Op::MulVV, Op::MulRR, Op::MulVR, Op::MulRV, Op::MulAssignR, Op::MulAssignV, Op::MulInh, Op::MulMultiplier, Op::MultiplierMulThenSquare,
    Op::NegV, Op::NegR, Op::NegInh,
    Op::SquareInh, Op::SquareTrait, Op::SquareAssign, Op::SquareMultiplier,
    Op::DoubleInh, Op::DoubleTrait,
    Op::HalveInh, Op::HalveTrait, Op::HalveAssign,
    Op::Zero, Op::One,
    Op::Swap, Op::Select0, Op::Select1, Op::RoundTrip, Op::CopyMont,
];

/// reference semantics in Z/mZ: new (a, b)
fn ref_step(op: Op, a: &BigUint, b: &BigUint, m: &BigUint, seeds: &[BigUint]) -> (BigUint, BigUint) {
    use Op::*;
    let r = match op {
        AddVV | AddRR | AddVR | AddRV | AddAssignR | AddAssignV | AddInh => (a + b) % m,
        SubVV | SubRR | SubVR | SubRV | SubAssignR | SubAssignV | SubInh => (a + m - b) % m,
        MulVV | MulRR | MulVR | MulRV | MulAssignR | MulAssignV | MulInh | MulMultiplier => (a * b) % m,
        MultiplierMulThenSquare => {
            let t = (a * b) % m;
            (&t * &t) % m
        }
        NegV | NegR | NegInh => (m - a) % m,
        SquareInh | SquareTrait | SquareAssign | SquareMultiplier => (a * a) % m,
        DoubleInh | DoubleTrait => (a + a) % m,
        HalveInh | HalveTrait | HalveAssign => {
            if a.bit(0) { (a + m) >> 1 } else { a >> 1 }
        }
        Zero => BigUint::zero(),
        One => BigUint::one() % m,
        New(i) => seeds[i as usize].clone() % m,
        Swap => return (b.clone(), a.clone()),
        Select0 => a.clone(),
        Select1 => b.clone(),
        RoundTrip => a.clone(),
        CopyMont => b.clone(),
    };
    (r, b.clone())
}

/// The representation under test: real objects rebuilt from Montgomery limbs.
trait Rep: Sized + Clone {
    type Params: Clone + Send + Sync + 'static;
    fn from_mont(l: &[u64], p: &Self::Params) -> Self;
    fn new_int(l: &[u64], p: &Self::Params) -> Self;
    fn mont(&self) -> Limbs;
    fn retrieve_limbs(&self) -> Limbs;
    /// apply the real operation: returns the new (x, y)
    fn apply(op: Op, x: Self, y: Self, p: &Self::Params, seeds: &[Limbs]) -> (Self, Self);
}

macro_rules! monty_apply {
    ($op:expr, $x:expr, $y:expr, $p:expr, $seeds:expr, $zero:expr, $one:expr, $halve_assign:expr, $select:expr) => {{
        use Op::*;
        let (x, y) = ($x, $y);
        let nx = match $op {
            AddVV => x.clone() + y.clone(),
            AddRR => &x + &y,
            AddVR => x.clone() + &y,
            AddRV => &x + y.clone(),
            AddAssignR => { let mut t = x.clone(); t += &y; t }
            AddAssignV => { let mut t = x.clone(); t += y.clone(); t }
            AddInh => x.add(&y),
            SubVV => x.clone() - y.clone(),
            SubRR => &x - &y,
            SubVR => x.clone() - &y,
            SubRV => &x - y.clone(),
            SubAssignR => { let mut t = x.clone(); t -= &y; t }
            SubAssignV => { let mut t = x.clone(); t -= y.clone(); t }
            SubInh => x.sub(&y),
            MulVV => x.clone() * y.clone(),
            MulRR => &x * &y,
            MulVR => x.clone() * &y,
            MulRV => &x * y.clone(),
            MulAssignR => { let mut t = x.clone(); t *= &y; t }
            MulAssignV => { let mut t = x.clone(); t *= y.clone(); t }
            MulInh => x.mul(&y),
            MulMultiplier => { let mut t = x.clone(); let mut mm = <Self as Monty>::Multiplier::from($p); mm.mul_assign(&mut t, &y); t }
            MultiplierMulThenSquare => { let mut t = x.clone(); let mut mm = <Self as Monty>::Multiplier::from($p); mm.mul_assign(&mut t, &y); mm.square_assign(&mut t); t }
            NegV => -x.clone(),
            NegR => -&x,
            NegInh => x.neg(),
            SquareInh => x.square(),
            SquareTrait => crypto_bigint::Square::square(&x),
            SquareAssign => { let mut t = x.clone(); crypto_bigint::SquareAssign::square_assign(&mut t); t }
            SquareMultiplier => { let mut t = x.clone(); let mut mm = <Self as Monty>::Multiplier::from($p); mm.square_assign(&mut t); t }
            DoubleInh => x.double(),
            DoubleTrait => Monty::double(&x),
            HalveInh => x.div_by_2(),
            HalveTrait => Monty::div_by_2(&x),
            HalveAssign => $halve_assign(&x),
            Zero => $zero,
            One => $one,
            New(i) => Self::new_int(&$seeds[i as usize], $p),
            Swap => return (y, x),
            Select0 => $select(&x, &y, 0u8),
            Select1 => $select(&x, &y, 1u8),
            RoundTrip => Self::from_mont(&x.mont(), $p),
            CopyMont => { let mut t = x.clone(); Monty::copy_montgomery_from(&mut t, &y); t }
        };
        (nx, y)
    }};
}

impl<const N: usize> Rep for MontyForm<N> {
    type Params = MontyParams<N>;
    fn from_mont(l: &[u64], p: &Self::Params) -> Self {
        MontyForm::from_montgomery(u::<N>(l), *p)
    }
    fn new_int(l: &[u64], p: &Self::Params) -> Self {
        MontyForm::new(&u::<N>(l), *p)
    }
    fn mont(&self) -> Limbs {
        w(self.as_montgomery())
    }
    fn retrieve_limbs(&self) -> Limbs {
        w(&self.retrieve())
    }
    fn apply(op: Op, x: Self, y: Self, p: &Self::Params, seeds: &[Limbs]) -> (Self, Self) {
        monty_apply!(op, x, y, p, seeds, MontyForm::zero(*p), MontyForm::one(*p),
            |x: &Self| { let mut t = *x; Monty::div_by_2_assign(&mut t); t },
            |x: &Self, y: &Self, c: u8| MontyForm::conditional_select(x, y, Choice::from(c)))
    }
}

impl Rep for BoxedMontyForm {
    type Params = BoxedMontyParams;
    fn from_mont(l: &[u64], p: &Self::Params) -> Self {
        BoxedMontyForm::from_montgomery(bx(l), p.clone())
    }
    fn new_int(l: &[u64], p: &Self::Params) -> Self {
        BoxedMontyForm::new(bx(l), p.clone())
    }
    fn mont(&self) -> Limbs {
        bw(self.as_montgomery())
    }
    fn retrieve_limbs(&self) -> Limbs {
        bw(&self.retrieve())
    }
    fn apply(op: Op, x: Self, y: Self, p: &Self::Params, seeds: &[Limbs]) -> (Self, Self) {
        monty_apply!(op, x, y, p, seeds, BoxedMontyForm::zero(p.clone()), BoxedMontyForm::one(p.clone()),
            |x: &Self| { let mut t = x.clone(); t.div_by_2_assign(); t },
            // BoxedMontyForm has no selector of its own: select on the representatives (BoxedUint::ct_select) and re-wrap
            |x: &Self, y: &Self, c: u8| {
                use crypto_bigint::ConstantTimeSelect;
                BoxedMontyForm::from_montgomery(BoxedUint::ct_select(x.as_montgomery(), y.as_montgomery(), Choice::from(c)), p.clone())
            })
    }
}

#[derive(Clone, Debug, PartialEq, Eq, Hash)]
struct St {
    x: Limbs,
    y: Limbs,
    a: Limbs,
    b: Limbs,
    depth: u16,
    bad: Option<String>,
}

struct Machine<R: Rep> {
    params: R::Params,
    m: BigUint,
    n: usize,
    seeds: Vec<Limbs>,
    seeds_big: Vec<BigUint>,
    ops: Vec<Op>,
    depth_bound: Option<u16>,
    transitions: Arc<AtomicU64>,
}

impl<R: Rep> Machine<R> {
    fn check(&self, x: &R, a: &BigUint, who: &str) -> Option<String> {
        let mont = to_big(&x.mont());
        if mont >= self.m && !(self.m.is_one() && mont.is_zero()) {
            return Some(format!("{who}: stored representative {} is not < m", hex(&x.mont())));
        }
        let r = guard(|| x.retrieve_limbs());
        match r {
            Ok(r) if to_big(&r) == *a => None,
            Ok(r) => Some(format!("{who}: retrieve() = {} but Z/mZ reference = {}", hex(&r), hex(&from_big(a, self.n)))),
            Err(e) => Some(format!("{who}: retrieve() panicked: {e}")),
        }
    }
}

impl<R: Rep> Model for Machine<R> {
    type State = St;
    type Action = Op;
    fn init_states(&self) -> Vec<St> {
        // x = new(seed0), y = new(seed1): construction is itself an operation and is checked
        let mut out = Vec::new();
        for (i, j) in [(0usize, 1usize)] {
            let r = guard(|| (R::new_int(&self.seeds[i], &self.params), R::new_int(&self.seeds[j], &self.params)));
            let (a, b) = (&self.seeds_big[i] % &self.m, &self.seeds_big[j] % &self.m);
            match r {
                Ok((x, y)) => {
                    let bad = self.check(&x, &a, "init x").or_else(|| self.check(&y, &b, "init y"));
                    out.push(St { x: x.mont(), y: y.mont(), a: from_big(&a, self.n), b: from_big(&b, self.n), depth: 0, bad });
                }
                Err(e) => out.push(St { x: vec![], y: vec![], a: vec![], b: vec![], depth: 0, bad: Some(format!("construction panicked: {e}")) }),
            }
        }
        out
    }
    fn actions(&self, s: &St, actions: &mut Vec<Op>) {
        if s.bad.is_some() {
            return;
        }
        if let Some(d) = self.depth_bound {
            if s.depth >= d {
                return;
            }
        }
        actions.extend(self.ops.iter().copied());
    }
    fn next_state(&self, s: &St, op: Op) -> Option<St> {
        self.transitions.fetch_add(1, Ordering::Relaxed);
        let (a, b) = (to_big(&s.a), to_big(&s.b));
        let (na, nb) = ref_step(op, &a, &b, &self.m, &self.seeds_big);
        let depth = if self.depth_bound.is_some() { s.depth + 1 } else { 0 };
        let r = guard(|| {
            let x = R::from_mont(&s.x, &self.params);
            let y = R::from_mont(&s.y, &self.params);
            R::apply(op, x, y, &self.params, &self.seeds)
        });
        Some(match r {
            Ok((x, y)) => {
                let bad = self.check(&x, &na, "x").or_else(|| self.check(&y, &nb, "y")).map(|e| format!("after {op:?}: {e}"));
                St { x: x.mont(), y: y.mont(), a: from_big(&na, self.n), b: from_big(&nb, self.n), depth, bad }
            }
            Err(e) => St { x: s.x.clone(), y: s.y.clone(), a: s.a.clone(), b: s.b.clone(), depth, bad: Some(format!("{op:?} panicked: {e}")) },
        })
    }
    fn properties(&self) -> Vec<Property<Self>> {
        vec![Property::always("canonical and tracks Z/mZ", |_, s: &St| s.bad.is_none())]
    }
}

struct Outcome {
    states: u64,
    transitions: u64,
    max_depth: usize,
    violation: Option<(Vec<String>, String)>,
}

fn run_machine<R: Rep + 'static>(params: R::Params, m: &BigUint, n: usize, seeds_big: Vec<BigUint>, depth_bound: Option<u16>, dfs_too: bool) -> Outcome
where
    Machine<R>: Send + Sync,
{
    let seeds: Vec<Limbs> = seeds_big.iter().map(|s| from_big(s, n)).collect();
    let mut ops: Vec<Op> = BASE_OPS.to_vec();
    for i in 0..seeds.len() {
        ops.push(Op::New(i as u8));
    }
    let tr = Arc::new(AtomicU64::new(0));
    let mk = || Machine::<R> { params: params.clone(), m: m.clone(), n, seeds: seeds.clone(), seeds_big: seeds_big.clone(), ops: ops.clone(), depth_bound, transitions: tr.clone() };
    let checker = mk().checker().threads(1).spawn_bfs().join();
    let mut out = Outcome { states: checker.unique_state_count() as u64, transitions: tr.load(Ordering::Relaxed), max_depth: checker.max_depth(), violation: None };
    if let Some((_, path)) = checker.discoveries().into_iter().next() {
        let last = path.last_state().clone();
        let acts: Vec<String> = path.into_actions().iter().map(|a| format!("{a:?}")).collect();
        out.violation = Some((acts, last.bad.unwrap_or_default()));
    } else if dfs_too {
        // determinism check of the model: depth-first exploration must find the same number of unique states
        let before = tr.load(Ordering::Relaxed);
        let c2 = mk().checker().threads(1).spawn_dfs().join();
        if c2.unique_state_count() as u64 != out.states {
            out.violation = Some((vec![], format!("MODEL NONDETERMINISM: bfs {} vs dfs {} unique states", out.states, c2.unique_state_count())));
        }
        out.transitions = before; // do not double count
    }
    out
}

fn seeds_for(m: &BigUint, n: usize, ctx: &Ctx, small: bool) -> Vec<BigUint> {
    let r = pow2(64 * n) % m;
    let mut s = vec![BigUint::from(2u32) % m, (m - 1u32) % m];
    if !small {
        s.extend([BigUint::zero(), BigUint::one() % m, (m + m - 2u32) % m, (m + 1u32) >> 1, (m - 1u32) >> 1, r, to_big(&vec![MAX; n]) % m]);
        let (g1, g2) = generic_limbs(ctx.seed);
        s.push(to_big(&(0..n).map(|i| if i % 2 == 0 { g1 } else { g2 }.rotate_left(i as u32)).collect::<Vec<_>>()) % m);
    }
    let mut seen = Vec::new();
    for x in s {
        if !seen.contains(&x) {
            seen.push(x);
        }
    }
    if seen.len() < 2 {
        seen.push(BigUint::zero());
        seen.push(BigUint::zero());
    }
    seen
}

/// parse `field: Type(0x....)` out of the Debug rendering of a params struct
fn dbg_field(s: &str, field: &str) -> Option<BigUint> {
    let i = s.find(&format!("{field}: "))?;
    let rest = &s[i..];
    let j = rest.find("0x")?;
    let hexs: String = rest[j + 2..].chars().take_while(|c| c.is_ascii_hexdigit()).collect();
    BigUint::parse_bytes(hexs.as_bytes(), 16)
}
fn dbg_u32(s: &str, field: &str) -> Option<u64> {
    let i = s.find(&format!("{field}: "))?;
    let rest = &s[i + field.len() + 2..];
    rest.chars().take_while(|c| c.is_ascii_digit()).collect::<String>().parse().ok()
}

/// parameter sets equal their definitions
fn check_params_defs(l: &mut Local, who: &'static str, dbg: &str, m: &BigUint, n: usize, width: &str) {
    let r = pow2(64 * n);
    let defs: [(&str, BigUint); 3] = [("one", &r % m), ("r2", (&r * &r) % m), ("r3", (&r * &r * &r) % m)];
    l.form(who);
    for (f, e) in defs {
        let g = dbg_field(dbg, f);
        // for m = 1 every residue is 0; `one` = R mod m must then be 0 as well (canonical)
        if g.as_ref() != Some(&e) {
            let cls = if m.is_one() { "modulus_one" } else { "any" };
            l.fail(failure(&[P], "params", &format!("{who}.{f}"), cls, width.to_string(), vec![format!("m={m}")], format!("{e}"), format!("{g:?}")));
        }
    }
    // -m^-1 mod 2^64
    let w64 = pow2(64);
    let m0 = (m % &w64).to_u64_digits().first().copied().unwrap_or(0);
    let mut inv: u64 = 1;
    for _ in 0..6 {
        inv = inv.wrapping_mul(2u64.wrapping_sub(m0.wrapping_mul(inv)));
    }
    let e = BigUint::from(inv.wrapping_neg());
    let g = dbg_field(dbg, "mod_neg_inv");
    if g.as_ref() != Some(&e) {
        l.fail(failure(&[P], "params", &format!("{who}.mod_neg_inv"), "any", width.to_string(), vec![format!("m={m}")], format!("{e}"), format!("{g:?}")));
    }
    let lz = ((64 * n) as u64 - m.bits()).min(63);
    let g = dbg_u32(dbg, "mod_leading_zeros");
    if g != Some(lz) {
        l.fail(failure(&[P], "params", &format!("{who}.mod_leading_zeros"), "any", width.to_string(), vec![format!("m={m}")], format!("{lz}"), format!("{g:?}")));
    }
}

fn report(l: &mut Local, fam: &'static str, width: &str, m: &BigUint, o: &Outcome, depth_bound: Option<u16>) {
    l.cases += 1;
    l.evals += o.transitions;
    *l.forms.entry("bfs instance").or_insert(0) += 1;
    l.nontrivial += (o.states > 1) as u64;
    if l.samples.len() < 3 {
        l.samples.push(format!("{fam} {width} m={} states={} transitions={} max_depth={} bound={:?}", if m.bits() <= 64 { format!("{m}") } else { format!("~2^{}", m.bits()) }, o.states, o.transitions, o.max_depth, depth_bound));
    }
    if let Some((acts, why)) = &o.violation {
        let cls = if m.is_one() { "modulus_one" } else { "any" };
        l.fail(failure(&[P], fam, "history", cls, width.to_string(), vec![format!("m={m}"), format!("actions={acts:?}")], "every reachable state canonical and equal to the Z/mZ reference".into(), why.clone()));
    }
}

fn adversarial_moduli(n: usize) -> Vec<BigUint> {
    let b = 64 * n;
    let mut v = vec![pow2(b) - 1u32, pow2(b - 1) + 1u32, pow2(b) / 3u32 | BigUint::one(), pow2(b) / 4u32 | BigUint::one(), pow2(b) - 3u32, pow2(b) - BigUint::from(MAX)];
    if n > 1 {
        v.push(pow2(64) + 13u32);
        v.push(pow2(64 * (n - 1)) - 1u32);
        v.push(pow2(64) - 1u32);
    }
    v.push(BigUint::from(3u32));
    v.retain(|m| m.bit(0));
    v.sort();
    v.dedup();
    v
}

fn fam_dyn<const N: usize>(ctx: &Ctx, small: &[u64], depth: u16) {
    let wname = format!("MontyForm<{N}>");
    let fam = "dyn_monty";
    if !ctx.want(fam) {
        return;
    }
    let mut jobs: Vec<(BigUint, Option<u16>)> = small.iter().map(|&m| (BigUint::from(m), None)).collect();
    jobs.extend(adversarial_moduli(N).into_iter().map(|m| (m, Some(depth))));
    ctx.par_for(fam, &wname, jobs.len(), |i, l| {
        let (m, bound) = (&jobs[i].0, jobs[i].1);
        let ml = from_big(m, N);
        let modulus = Odd::new(u::<N>(&ml)).unwrap();
        let pv = match guard(|| MontyParams::new_vartime(modulus)) {
            Ok(p) => p,
            Err(e) => {
                l.fail(failure(&[P, "C11"], fam, "MontyParams::new_vartime", "any", wname.clone(), vec![format!("m={m}")], "params".into(), format!("panic: {e}")));
                return;
            }
        };
        check_params_defs(l, "MontyParams::new_vartime", &format!("{pv:?}"), m, N, &wname);
        let o = run_machine::<MontyForm<N>>(pv, m, N, seeds_for(m, N, ctx, bound.is_none()), bound, ctx.thorough() && bound.is_none() && m.bits() <= 5);
        ctx.states.fetch_add(o.states, Ordering::Relaxed);
        ctx.transitions.fetch_add(o.transitions, Ordering::Relaxed);
        report(l, fam, &wname, m, &o, bound);
    });
}

/// the ct constructor (needs Concat) must agree with the vartime one
macro_rules! params_agree {
    ($ctx:expr, $n:literal, $small:expr) => {{
        let ctx: &Ctx = $ctx;
        if ctx.want("params") {
            let mut ms: Vec<BigUint> = $small.iter().map(|&m: &u64| BigUint::from(m)).collect();
            ms.extend(adversarial_moduli($n));
            ms.extend(thin(bits($n), 80).iter().map(|x| to_big(x) | BigUint::one()));
            ms.sort();
            ms.dedup();
            let wname = format!("MontyParams<{}>", $n);
            ctx.par_for("params", &wname, ms.len(), |i, l| {
                let m = &ms[i];
                l.cases += 1;
                l.nontrivial += 1;
                let modulus = Odd::new(u::<$n>(&from_big(m, $n))).unwrap();
                let a = guard(|| MontyParams::<$n>::new(modulus));
                let b = guard(|| MontyParams::<$n>::new_vartime(modulus));
                l.form("MontyParams::new == new_vartime");
                match (a, b) {
                    (Ok(a), Ok(b)) => {
                        if a != b {
                            l.fail(failure(&[P, "C15"], "params", "MontyParams::new~new_vartime", "any", wname.clone(), vec![format!("m={m}")], format!("{b:?}"), format!("{a:?}")));
                        }
                        check_params_defs(l, "MontyParams::new", &format!("{a:?}"), m, $n, &wname);
                        let xm = bx(&from_big(m, $n));
                        let ba = guard(|| BoxedMontyParams::new(Odd::new(xm.clone()).unwrap()));
                        let bb = guard(|| BoxedMontyParams::new_vartime(Odd::new(xm.clone()).unwrap()));
                        l.form("BoxedMontyParams::new == new_vartime");
                        match (ba, bb) {
                            (Ok(ba), Ok(bb)) => {
                                if ba != bb {
                                    l.fail(failure(&[P, "C15"], "params", "BoxedMontyParams::new~new_vartime", "any", wname.clone(), vec![format!("m={m}")], format!("{bb:?}"), format!("{ba:?}")));
                                }
                                check_params_defs(l, "BoxedMontyParams::new", &format!("{ba:?}"), m, $n, &wname);
                            }
                            (x, y) => l.fail(failure(&[P, "C11"], "params", "BoxedMontyParams::new", if m.is_one() { "modulus_one" } else { "any" }, wname.clone(), vec![format!("m={m}")], "params".into(), format!("{:?} / {:?}", x.err(), y.err()))),
                        }
                    }
                    (x, y) => l.fail(failure(&[P, "C11"], "params", "MontyParams::new", "any", wname.clone(), vec![format!("m={m}")], "params".into(), format!("{:?} / {:?}", x.err(), y.err()))),
                }
            });
        }
    }};
}

fn fam_boxed(ctx: &Ctx, n: usize, small: &[u64], depth: u16) {
    let wname = format!("BoxedMontyForm<{n}>");
    let fam = "boxed_monty";
    if !ctx.want(fam) {
        return;
    }
    let mut jobs: Vec<(BigUint, Option<u16>)> = small.iter().map(|&m| (BigUint::from(m), None)).collect();
    jobs.extend(adversarial_moduli(n).into_iter().map(|m| (m, Some(depth))));
    ctx.par_for(fam, &wname, jobs.len(), |i, l| {
        let (m, bound) = (&jobs[i].0, jobs[i].1);
        let modulus = Odd::new(bx(&from_big(m, n))).unwrap();
        let pv = match guard(|| BoxedMontyParams::new(modulus)) {
            Ok(p) => p,
            Err(e) => {
                l.fail(failure(&[P, "C11"], fam, "BoxedMontyParams::new", if m.is_one() { "modulus_one" } else { "any" }, wname.clone(), vec![format!("m={m}")], "params".into(), format!("panic: {e}")));
                return;
            }
        };
        let o = run_machine::<BoxedMontyForm>(pv, m, n, seeds_for(m, n, ctx, bound.is_none()), bound, false);
        ctx.states.fetch_add(o.states, Ordering::Relaxed);
        ctx.transitions.fetch_add(o.transitions, Ordering::Relaxed);
        report(l, fam, &wname, m, &o, bound);
    });
}

// ---------------------------------------------------------------------------------------------
// Compile-time moduli (macro constructor): params must equal the run-time ones and the definitions;
// the same register machine is run through ConstMontyForm, and conversion Const -> Dyn -> Boxed is an action.
impl_modulus!(M64A, U64, "00000000000000fb"); // 251
impl_modulus!(M64B, U64, "ffffffffffffffff"); // 2^64-1
impl_modulus!(M64C, U64, "8000000000000001"); // 2^63+1
impl_modulus!(M64D, U64, "0000000000000003");
impl_modulus!(M64E, U64, "0000000000000001"); // m = 1
impl_modulus!(M128A, U128, "ffffffffffffffffffffffffffffffff");
impl_modulus!(M128B, U128, "0000000000000001000000000000000d"); // 2^64+13
impl_modulus!(M128C, U128, "00000000000000000000000000000fff"); // 4095
impl_modulus!(M128D, U128, "00000000000000008000000000000001"); // exactly 64 leading zeros (the clamp boundary of MOD_LEADING_ZEROS)
impl_modulus!(M128E, U128, "00000000000000004000000000000001"); // 65 leading zeros
impl_modulus!(M192A, U192, "000000000000000080000000000000000000000000000001"); // 64 leading zeros, 3 limbs
impl_modulus!(M256A, U256, "ffffffff00000001000000000000000000000000ffffffffffffffffffffffff"); // NIST P-256
impl_modulus!(M256B, U256, "5555555555555555555555555555555555555555555555555555555555555555"); // ~2^256/3

macro_rules! const_rep {
    ($ty:ident, $n:literal) => {
        impl Rep for ConstMontyForm<$ty, $n> {
            type Params = ();
            fn from_mont(l: &[u64], _p: &()) -> Self {
                ConstMontyForm::from_montgomery(u::<$n>(l))
            }
            fn new_int(l: &[u64], _p: &()) -> Self {
                ConstMontyForm::new(&u::<$n>(l))
            }
            fn mont(&self) -> Limbs {
                w(self.as_montgomery())
            }
            fn retrieve_limbs(&self) -> Limbs {
                w(&self.retrieve())
            }
            fn apply(op: Op, x: Self, y: Self, _p: &(), seeds: &[Limbs]) -> (Self, Self) {
                use Op::*;
                let nx = match op {
                    AddVV => x + y,
                    AddRR => &x + &y,
                    AddVR => x + &y,
                    AddRV => &x + y,
                    AddAssignR => { let mut t = x; t += &y; t }
                    AddAssignV => { let mut t = x; t += y; t }
                    AddInh => x.add(&y),
                    SubVV => x - y,
                    SubRR => &x - &y,
                    SubVR => x - &y,
                    SubRV => &x - y,
                    SubAssignR => { let mut t = x; t -= &y; t }
                    SubAssignV => { let mut t = x; t -= y; t }
                    SubInh => x.sub(&y),
                    MulVV => x * y,
                    MulRR => &x * &y,
                    MulVR => x * &y,
                    MulRV => &x * y,
                    MulAssignR => { let mut t = x; t *= &y; t }
                    MulAssignV => { let mut t = x; t *= y; t }
                    MulInh | MulMultiplier => x.mul(&y),
                    MultiplierMulThenSquare => x.mul(&y).square(),
                    NegV => -x,
                    NegR => -&x,
                    NegInh => x.neg(),
                    SquareInh | SquareMultiplier => x.square(),
                    SquareTrait => crypto_bigint::Square::square(&x),
                    SquareAssign => x.square(),
                    DoubleInh | DoubleTrait => x.double(),
                    HalveInh | HalveTrait | HalveAssign => x.div_by_2(),
                    Zero => ConstMontyForm::ZERO,
                    One => ConstMontyForm::ONE,
                    New(i) => Self::new_int(&seeds[i as usize], &()),
                    Swap => return (y, x),
                    Select0 => ConstMontyForm::conditional_select(&x, &y, Choice::from(0)),
                    Select1 => ConstMontyForm::conditional_select(&x, &y, Choice::from(1)),
                    // conversion Const -> Dyn -> Boxed and back through from_montgomery(to_montgomery())
                    RoundTrip => {
                        let d: MontyForm<$n> = MontyForm::from(&x);
                        let bp = BoxedMontyParams::from_const_params::<$n, $ty>();
                        let bxm = BoxedMontyForm::from_montgomery(BoxedUint::from(d.to_montgomery()), bp);
                        ConstMontyForm::from_montgomery(u::<$n>(&bw(&bxm.to_montgomery())))
                    }
                    CopyMont => y,
                };
                (nx, y)
            }
        }
    };
}
const_rep!(M64A, 1);
const_rep!(M64B, 1);
const_rep!(M64C, 1);
const_rep!(M64D, 1);
const_rep!(M64E, 1);
const_rep!(M128A, 2);
const_rep!(M128B, 2);
const_rep!(M128C, 2);
const_rep!(M128D, 2);
const_rep!(M128E, 2);
const_rep!(M192A, 3);
const_rep!(M256A, 4);
const_rep!(M256B, 4);

macro_rules! const_instance {
    ($ctx:expr, $ty:ident, $n:literal, $bound:expr) => {{
        let ctx: &Ctx = $ctx;
        if ctx.want("const_monty") {
            let wname = format!("ConstMontyForm<{}>", stringify!($ty));
            ctx.seq("const_monty", &wname, |l| {
                let m = to_big(&w(<$ty as ConstMontyParams<$n>>::MODULUS.as_ref()));
                // macro constants == run-time constructors == definitions
                let dynp = MontyParams::<$n>::from_const_params::<$ty>();
                let rt = MontyParams::<$n>::new_vartime(<$ty as ConstMontyParams<$n>>::MODULUS);
                l.form("from_const_params == new_vartime");
                if dynp != rt {
                    l.fail(failure(&[P, "C15"], "const_monty", "MontyParams::from_const_params~new_vartime", if m.is_one() { "modulus_one" } else { "any" }, wname.clone(), vec![format!("m={m}")], format!("{rt:?}"), format!("{dynp:?}")));
                }
                check_params_defs(l, "impl_modulus!", &format!("{dynp:?}"), &m, $n, &wname);
                let bp = BoxedMontyParams::from_const_params::<$n, $ty>();
                let brt = BoxedMontyParams::new_vartime(Odd::new(bx(&from_big(&m, $n))).unwrap());
                l.form("BoxedMontyParams::from_const_params == new_vartime");
                if bp != brt {
                    l.fail(failure(&[P, "C15"], "const_monty", "BoxedMontyParams::from_const_params~new_vartime", if m.is_one() { "modulus_one" } else { "any" }, wname.clone(), vec![format!("m={m}")], format!("{brt:?}"), format!("{bp:?}")));
                }
                let bound: Option<u16> = $bound;
                let o = run_machine::<ConstMontyForm<$ty, $n>>((), &m, $n, seeds_for(&m, $n, ctx, bound.is_none()), bound, false);
                ctx.states.fetch_add(o.states, Ordering::Relaxed);
                ctx.transitions.fetch_add(o.transitions, Ordering::Relaxed);
                report(l, "const_monty", &wname, &m, &o, bound);
            });
        }
    }};
}

fn main() {
    let ctx = Ctx::from_args(P, "model_checking");
    // one index = one complete stateright exploration (a whole state graph), not one operation: the 60 s per-index
    // non-termination watchdog of the enumeration families does not apply (a false C11 alarm in the thorough tier otherwise)
    ctx.watchdog_ms.store(3_600_000, std::sync::atomic::Ordering::Relaxed);
    let th = ctx.thorough();
    ctx.set_rule("E2 explicit-state search (stateright BFS) over a two-register machine of REAL Montgomery-form values with 42 operation forms + New(seed): \
        (i) small odd moduli m <= 31 (quick) / <= 255 (thorough) plus 251 (quick), 1021 (thorough; 4093 alone took 19 min single-threaded and was dropped): the COMPLETE reachable state graph (unbounded history length) in MontyForm<1,2,3,4>, BoxedMontyForm 1,2,3,5 limbs; \
        (ii) adversarial large moduli (2^BITS-1, 2^(BITS-1)+1, ~2^BITS/3, ~2^BITS/4, 2^BITS-3, 2^BITS-(2^64-1), zero-high-limb moduli) depth-bounded to 3 (quick) / 4-5 (thorough) for MontyForm<1,2,3,4,6,8,16,32>, BoxedMontyForm 1..5,8,16,33 limbs; \
        (iii) ten compile-time moduli through ConstMontyForm incl. conversion Const->Dyn->Boxed. Invariant in every state: representative < m and retrieve() == Z/mZ reference. \
        Parameter sets: new == new_vartime == from_const_params == definitions (R, R^2, R^3 mod m, -m^-1 mod 2^64, min(lz,63)).");
    ctx.assume("states whose snapshot (all limbs of both registers + reference residues) coincide are merged: operations are pure functions of those limbs and the fixed modulus, so merged states have identical futures");
    ctx.assume("large moduli: histories longer than the stated depth bound and seeds outside the stated set are not explored");
    ctx.assume("parameter fields are observed through the public Debug rendering of MontyParams / BoxedMontyParams");
    let ctx = &ctx;
    let small: Vec<u64> = if th { (1..=255u64).step_by(2).chain([1021]).collect() } else { (1..=31u64).step_by(2).chain([251]).collect() };
    let small_wide: Vec<u64> = if th { (1..=63u64).step_by(2).chain([251]).collect() } else { vec![1, 3, 5, 7, 9, 15, 17, 31] };
    let d = if th { 4 } else { 3 };
    fam_dyn::<1>(ctx, &small, d + th as u16);
    fam_dyn::<2>(ctx, &small_wide, d);
    fam_dyn::<3>(ctx, &small_wide, d);
    fam_dyn::<4>(ctx, &small_wide, d);
    fam_dyn::<6>(ctx, &[3], d);
    fam_dyn::<8>(ctx, &[3], d);
    fam_dyn::<16>(ctx, &[3], if th { 3 } else { 2 });
    fam_dyn::<32>(ctx, &[], if th { 3 } else { 2 });
    params_agree!(ctx, 1, &small);
    params_agree!(ctx, 2, &small_wide);
    params_agree!(ctx, 3, &small_wide);
    params_agree!(ctx, 4, &small_wide);
    params_agree!(ctx, 6, &[3u64]);
    params_agree!(ctx, 8, &[3u64]);
    params_agree!(ctx, 16, &[3u64]);
    for (n, sm, dd) in [(1usize, &small, d + th as u16), (2, &small_wide, d), (3, &small_wide, d), (5, &small_wide, d)] {
        fam_boxed(ctx, n, sm, dd);
    }
    for n in [4usize, 8, 16, 33] {
        fam_boxed(ctx, n, &[], if n >= 16 { 2 + th as u16 } else { d });
    }
    const_instance!(ctx, M64A, 1, None);
    const_instance!(ctx, M64D, 1, None);
    const_instance!(ctx, M64E, 1, None);
    const_instance!(ctx, M64B, 1, Some(d + 1));
    const_instance!(ctx, M64C, 1, Some(d + 1));
    const_instance!(ctx, M128A, 2, Some(d));
    const_instance!(ctx, M128B, 2, Some(d));
    const_instance!(ctx, M128C, 2, if th { None } else { Some(d) });
    const_instance!(ctx, M128D, 2, Some(d));
    const_instance!(ctx, M128E, 2, Some(d));
    const_instance!(ctx, M192A, 3, Some(d));
    const_instance!(ctx, M256A, 4, Some(d));
    const_instance!(ctx, M256B, 4, Some(d));
    ctx.extra("engine", json!("stateright 0.31 BFS, one checker per (representation, width, modulus) instance; DFS re-run on small instances in thorough tier (unique-state counts must agree)"));
    std::process::exit(ctx.finish());
}
