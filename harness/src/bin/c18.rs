//! C18 — DER and RLP integer codecs are canonical and fail closed (engine E5).
use crypto_bigint::{Encoding, Uint, U128, U256, U64, U8192, U1024, U192, U384, U512};
use der::asn1::{AnyRef, UintRef};
use der::{Decode, Encode};
use num_bigint::BigUint;
use num_traits::Zero;
use vcommon::*;

const P: &str = "C18";

fn bytes_out(b: &[u8]) -> Out {
    Out::Val(b.iter().map(|&x| x as u64).collect())
}

/// reference: is `input` exactly one canonical DER INTEGER of a non-negative value < 2^(8*cap)? -> value
fn ref_der(input: &[u8], cap: usize) -> Option<BigUint> {
    if input.len() < 2 || input[0] != 0x02 {
        return None;
    }
    let (len, hdr) = match input[1] {
        l @ 0..=0x7f => (l as usize, 2),
        0x81 => {
            let l = *input.get(2)? as usize;
            if l < 0x80 {
                return None; // not minimal
            }
            (l, 3)
        }
        0x82 => {
            let l = ((*input.get(2)? as usize) << 8) | *input.get(3)? as usize;
            if l < 0x100 {
                return None;
            }
            (l, 4)
        }
        _ => return None, // indefinite or longer forms: never needed up to 8192 bits
    };
    if input.len() != hdr + len || len == 0 {
        return None;
    }
    let c = &input[hdr..];
    if c[0] & 0x80 != 0 {
        return None; // negative
    }
    if c[0] == 0 && len > 1 && c[1] & 0x80 == 0 {
        return None; // superfluous leading zero
    }
    let mag = if c[0] == 0 { &c[1..] } else { c };
    if mag.len() > cap {
        return None; // does not fit the target
    }
    Some(BigUint::from_bytes_be(mag))
}

/// reference canonical DER encoding
fn enc_der(x: &BigUint) -> Vec<u8> {
    let mut c = x.to_bytes_be();
    if c.is_empty() {
        c.push(0);
    }
    if c[0] & 0x80 != 0 {
        c.insert(0, 0);
    }
    let mut out = vec![0x02];
    let l = c.len();
    if l < 0x80 {
        out.push(l as u8);
    } else if l < 0x100 {
        out.extend([0x81, l as u8]);
    } else {
        out.extend([0x82, (l >> 8) as u8, l as u8]);
    }
    out.extend(c);
    out
}

/// reference: exactly one canonical RLP string item of a value < 2^(8*cap)
fn ref_rlp(input: &[u8], cap: usize) -> Option<BigUint> {
    let b0 = *input.first()?;
    let payload: &[u8] = match b0 {
        0x00..=0x7f => {
            if input.len() != 1 {
                return None;
            }
            &input[..1]
        }
        0x80..=0xb7 => {
            let l = (b0 - 0x80) as usize;
            if input.len() != 1 + l {
                return None;
            }
            let p = &input[1..];
            if l == 1 && p[0] < 0x80 {
                return None; // must be the single-byte form
            }
            p
        }
        0xb8..=0xbf => {
            let ll = (b0 - 0xb7) as usize;
            if input.len() < 1 + ll {
                return None;
            }
            let lb = &input[1..1 + ll];
            if lb[0] == 0 {
                return None;
            }
            let mut l = 0usize;
            for &x in lb {
                l = l.checked_mul(256)?.checked_add(x as usize)?;
            }
            if l <= 55 || input.len() != 1 + ll + l {
                return None;
            }
            &input[1 + ll..]
        }
        _ => return None, // lists
    };
    if payload.first() == Some(&0) {
        return None; // leading zero octet (the integer zero is the empty string 0x80)
    }
    if payload.len() > cap {
        return None;
    }
    Some(BigUint::from_bytes_be(payload))
}
fn enc_rlp(x: &BigUint) -> Vec<u8> {
    let p = if x.is_zero() { vec![] } else { x.to_bytes_be() };
    if p.len() == 1 && p[0] < 0x80 {
        return p;
    }
    let mut out = Vec::new();
    if p.len() <= 55 {
        out.push(0x80 + p.len() as u8);
    } else {
        let lb: Vec<u8> = p.len().to_be_bytes().iter().copied().skip_while(|&b| b == 0).collect();
        out.push(0xb7 + lb.len() as u8);
        out.extend(lb);
    }
    out.extend(p);
    out
}

fn contents(len: usize, th: bool) -> Vec<Vec<u8>> {
    if len == 0 {
        return vec![vec![]];
    }
    let mk = |first: &[u8], fill: u8| -> Vec<u8> {
        let mut v = vec![fill; len];
        for (i, b) in first.iter().enumerate().take(len) {
            v[i] = *b;
        }
        v
    };
    let mut v = vec![
        mk(&[0x00], 0x11),       // leading 00 then < 0x80 : superfluous zero (unless len == 1)
        mk(&[0x00, 0x00], 0x11), // two leading zeros
        mk(&[0x00, 0x80], 0x22), // needed sign octet
        mk(&[0x00, 0xff], 0xff),
        mk(&[0xff], 0xff),       // negative
        mk(&[0x80], 0x00),       // negative, MIN-like
        mk(&[0x7f], 0xff),       // largest positive without sign octet
        mk(&[0x01], 0x00),
        mk(&[0x00], 0x00),       // all zeros
    ];
    let probe: Vec<u8> = (0..len).map(|i| (i % 126 + 1) as u8).collect();
    v.push(probe);
    if th {
        // thorough: EVERY value of the first octet, and EVERY value of the second octet after a leading 00 (the sign-octet rule)
        for b in 0..=255u8 {
            v.push(mk(&[b], 0x11));
            v.push(mk(&[0x00, b], 0x33));
            v.push(mk(&[b], 0x00));
        }
    }
    v.sort();
    v.dedup();
    v
}

fn der_inputs(cap: usize, th: bool) -> Vec<Vec<u8>> {
    let mut out = Vec::new();
    let tags: Vec<u8> = if th { (0..=255u8).collect() } else { vec![0x02u8, 0x03, 0x22, 0x82, 0x04] };
    for len in 0..=cap + 4 {
        // lengths near the boundaries in full, a stride in the middle of wide types
        if !th && cap > 64 && len > 6 && len + 8 < cap && len % 37 != 0 && !(126..=130).contains(&len) && !(254..=258).contains(&len) {
            continue;
        }
        for c in contents(len, th && cap <= 64) {
            for &tag in &tags {
                if tag != 0x02 && (c.first() != Some(&0x01) && c.first() != Some(&0x7f) || c.get(1).is_some_and(|&x| x != 0x00 && x != 0xff)) {
                    continue; // wrong tags with two representative contents
                }
                // definite minimal length form
                let mut forms: Vec<Vec<u8>> = Vec::new();
                if len < 0x80 {
                    forms.push(vec![len as u8]);
                    forms.push(vec![0x81, len as u8]); // overlong
                    forms.push(vec![0x82, 0, len as u8]); // overlong
                } else if len < 0x100 {
                    forms.push(vec![0x81, len as u8]);
                    forms.push(vec![0x82, 0, len as u8]);
                } else {
                    forms.push(vec![0x82, (len >> 8) as u8, len as u8]);
                    forms.push(vec![0x83, 0, (len >> 8) as u8, len as u8]);
                }
                forms.push(vec![0x80]); // indefinite
                for (fi, f) in forms.iter().enumerate() {
                    let mut m = vec![tag];
                    m.extend(f);
                    m.extend(&c);
                    out.push(m.clone());
                    if fi == 0 && tag == 0x02 {
                        // truncated (one content octet missing), declared longer than present, trailing garbage
                        if !c.is_empty() {
                            out.push(m[..m.len() - 1].to_vec());
                        }
                        let mut g = m.clone();
                        g.push(0x00);
                        out.push(g);
                    }
                }
            }
        }
    }
    out.push(vec![]);
    out.push(vec![0x02]);
    out.push(vec![0x02, 0x81]);
    out.push(vec![0x02, 0x82, 0x01]);
    out.sort();
    out.dedup();
    out
}

fn rlp_inputs(cap: usize, th: bool) -> Vec<Vec<u8>> {
    let mut out: Vec<Vec<u8>> = (0..=255u8).map(|b| vec![b]).collect();
    for len in 0..=cap + 4 {
        for c in contents(len, th) {
            // short-string form (also used where the long form would be required: non-canonical / invalid)
            if len <= 55 {
                let mut m = vec![0x80 + len as u8];
                m.extend(&c);
                out.push(m.clone());
                if !c.is_empty() {
                    out.push(m[..m.len() - 1].to_vec()); // truncated
                }
            }
            // long-string form with minimal and padded length-of-length
            let mut m = vec![0xb8, len as u8];
            m.extend(&c);
            out.push(m);
            let mut m = vec![0xb9, 0, len as u8];
            m.extend(&c);
            out.push(m);
            // list prefix
            if len <= 55 {
                let mut m = vec![0xc0 + len as u8];
                m.extend(&c);
                out.push(m);
            }
        }
    }
    out.push(vec![]);
    out.sort();
    out.dedup();
    out
}

fn enc_values(nbytes: usize) -> Vec<BigUint> {
    let mut v = vec![BigUint::zero(), BigUint::from(1u32), BigUint::from(0x7fu32), BigUint::from(0x80u32), BigUint::from(0xffu32), BigUint::from(0x100u32)];
    for k in 1..=nbytes {
        // 0x7f.. / 0x80.. boundary in the top octet at every octet length
        v.push((BigUint::from(0x7fu32) << (8 * (k - 1))) | ((BigUint::from(1u32) << (8 * (k - 1))) - 1u32));
        v.push(BigUint::from(0x80u32) << (8 * (k - 1)));
        v.push(BigUint::from(0x01u32) << (8 * (k - 1)));
        v.push((BigUint::from(1u32) << (8 * k)) - 1u32);
    }
    let probe: Vec<u8> = (0..nbytes).map(|i| (i % 250 + 1) as u8).collect();
    v.push(BigUint::from_bytes_be(&probe));
    v.sort();
    v.dedup();
    v
}

macro_rules! fam_der {
    ($ctx:expr, $t:ty, $n:literal) => {{
        let ctx: &Ctx = $ctx;
        let wname = format!("U{}", 64 * $n);
        let cap = 8 * $n;
        if ctx.want("der_decode") {
            let inputs = der_inputs(cap, ctx.thorough());
            ctx.par_for("der_decode", &wname, inputs.len(), |i, l| {
                let m = &inputs[i];
                let ins: [&[u64]; 0] = [];
                let mut cs = Case::new(l, P, "der_decode", &wname, &ins);
                cs.extra = Some(format!("der={}", m.iter().take(40).map(|b| format!("{b:02x}")).collect::<String>() + if m.len() > 40 { ".." } else { "" }));
                let r = ref_der(m, cap);
                cs.l.nontrivial += (m.len() > 2) as u64;
                let content_len = m.len().saturating_sub(2);
                let cls = if r.is_none() && m.first() == Some(&0x02) && content_len > cap { "integer_longer_than_target" } else { "any" };
                match &r {
                    Some(_) => cs.l.class("canonical, fits"),
                    None => cs.l.class("must be rejected"),
                }
                let exp = match &r {
                    Some(v) => Out::v(&from_big(v, $n)),
                    None => Out::None,
                };
                cs.check("Uint::from_der", cls, &exp, guard(|| match <$t>::from_der(m) {
                    Ok(v) => Out::v(&w(&v)),
                    Err(_) => Out::None,
                }));
                cs.check("Uint:TryFrom<AnyRef>", cls, &exp, guard(|| match AnyRef::from_der(m).and_then(|a| <$t>::try_from(a)) {
                    Ok(v) => Out::v(&w(&v)),
                    Err(_) => Out::None,
                }));
                cs.check("Uint:TryFrom<UintRef>", cls, &exp, guard(|| match UintRef::from_der(m).and_then(|a| <$t>::try_from(a)) {
                    Ok(v) => Out::v(&w(&v)),
                    Err(_) => Out::None,
                }));
            });
        }
        if ctx.want("der_encode") {
            let vals = enc_values(cap);
            ctx.par_for("der_encode", &wname, vals.len(), |i, l| {
                let x = &vals[i];
                let a = from_big(x, $n);
                let ins: [&[u64]; 1] = [&a];
                let mut cs = Case::new(l, P, "der_encode", &wname, &ins);
                cs.l.nontrivial += (!x.is_zero()) as u64;
                let ua: $t = u::<$n>(&a);
                let e = enc_der(x);
                cs.check("Uint::to_der", "any", &bytes_out(&e), guard(|| match ua.to_der() {
                    Ok(v) => bytes_out(&v),
                    Err(_) => Out::None,
                }));
                cs.check("Uint::encode_to_slice", "any", &bytes_out(&e), guard(|| {
                    let mut buf = vec![0u8; cap + 8];
                    match ua.encode_to_slice(&mut buf) {
                        Ok(v) => bytes_out(v),
                        Err(_) => Out::None,
                    }
                }));
                cs.group();
                cs.check("Uint::encoded_len", "any", &Out::Val(vec![e.len() as u64]), guard(|| match ua.encoded_len() {
                    Ok(v) => Out::Val(vec![u32::from(v) as u64]),
                    Err(_) => Out::None,
                }));
                cs.group();
                cs.check("from_der(to_der(x))", "any", &Out::v(&a), guard(|| match ua.to_der().and_then(|d| <$t>::from_der(&d)) {
                    Ok(v) => Out::v(&w(&v)),
                    Err(_) => Out::None,
                }));
            });
        }
    }};
}

macro_rules! fam_rlp {
    ($ctx:expr, $t:ty, $n:literal) => {{
        let ctx: &Ctx = $ctx;
        let wname = format!("U{}", 64 * $n);
        let cap = 8 * $n;
        if ctx.want("rlp_decode") {
            let inputs = rlp_inputs(cap, ctx.thorough());
            ctx.par_for("rlp_decode", &wname, inputs.len(), |i, l| {
                let m = &inputs[i];
                let ins: [&[u64]; 0] = [];
                let mut cs = Case::new(l, P, "rlp_decode", &wname, &ins);
                cs.extra = Some(format!("rlp={}", m.iter().map(|b| format!("{b:02x}")).collect::<String>()));
                let r = ref_rlp(m, cap);
                cs.l.nontrivial += (m.len() > 1) as u64;
                match &r {
                    Some(_) => cs.l.class("canonical, fits"),
                    None => cs.l.class("must be rejected"),
                }
                let exp = match &r {
                    Some(v) => Out::v(&from_big(v, $n)),
                    None => Out::None,
                };
                cs.check("rlp::decode::<Uint>", "any", &exp, guard(|| match rlp::decode::<$t>(m) {
                    Ok(v) => Out::v(&w(&v)),
                    Err(_) => Out::None,
                }));
            });
        }
        if ctx.want("rlp_encode") {
            let vals = enc_values(cap);
            ctx.par_for("rlp_encode", &wname, vals.len(), |i, l| {
                let x = &vals[i];
                let a = from_big(x, $n);
                let ins: [&[u64]; 1] = [&a];
                let mut cs = Case::new(l, P, "rlp_encode", &wname, &ins);
                cs.l.nontrivial += (!x.is_zero()) as u64;
                let ua: $t = u::<$n>(&a);
                let e = enc_rlp(x);
                cs.check("rlp::encode(Uint)", "any", &bytes_out(&e), guard(|| bytes_out(&rlp::encode(&ua))));
                cs.group();
                cs.check("rlp decode(encode(x))", "any", &Out::v(&a), guard(|| match rlp::decode::<$t>(&rlp::encode(&ua)) {
                    Ok(v) => Out::v(&w(&v)),
                    Err(_) => Out::None,
                }));
            });
        }
    }};
}

/// every width that has a hybrid-array / DER codec (the table of `impl_uint_array_encoding!`): byte-array length = BITS/8,
/// DER of 0, 5, 2^(BITS-1), MAX is the canonical encoding and decodes back (a wrong table entry for one rarely used
/// width is invisible to the per-width grammar sweeps above)
fn fam_width_table(ctx: &Ctx) {
    use crypto_bigint::ArrayEncoding;
    if !ctx.want("der_width_table") {
        return;
    }
    ctx.seq("der_width_table", "all ArrayEncoding widths", |l| {
        macro_rules! width {
            ($($t:ident),*) => {$({
                type T = crypto_bigint::$t;
                let n = T::LIMBS;
                let ins: [&[u64]; 1] = [&[n as u64]];
                let mut cs = Case::new(l, P, "der_width_table", stringify!($t), &ins);
                cs.l.nontrivial += 1;
                cs.check(concat!(stringify!($t), " byte array length"), "any", &Out::Val(vec![(8 * n) as u64, (8 * n) as u64]), guard(|| Out::Val(vec![T::MAX.to_be_byte_array().len() as u64, T::MAX.to_le_byte_array().len() as u64])));
                for v in [BigUint::zero(), BigUint::from(5u32), pow2(64 * n - 1), pow2(64 * n) - 1u32, pow2(64 * (n - 1)) | BigUint::from(0x80u32)] {
                    let x = T::from_words(from_big(&v, n).try_into().unwrap());
                    cs.group();
                    let want = enc_der(&v);
                    cs.check(concat!(stringify!($t), "::to_der"), "any", &Out::Val(want.iter().map(|&b| b as u64).collect()), guard(|| Out::Val(x.to_der().unwrap().iter().map(|&b| b as u64).collect())));
                    cs.group();
                    cs.check(concat!(stringify!($t), "::from_der(canonical)"), "any", &Out::v(&from_big(&v, n)), guard(|| match T::from_der(&want) {
                        Ok(y) => Out::v(y.as_words()),
                        Err(_) => Out::None,
                    }));
                    cs.group();
                    cs.check(concat!(stringify!($t), " byte array round trip"), "any", &Out::v(&from_big(&v, n)), guard(|| Out::v(T::from_be_byte_array(x.to_be_byte_array()).as_words())));
                }
            })*};
        }
        width!(U64, U128, U192, U256, U384, U448, U512, U576, U768, U832, U896, U1024, U1536, U1792, U2048, U3072, U3584, U4096, U6144, U8192);
    });
}

fn main() {
    let ctx = Ctx::from_args(P, "exploration");
    ctx.set_rule("E5: DER: complete product of tag in {02,03,22,82,04} x length form in {minimal definite, overlong 81/82/83, indefinite} x content length 0..=BITS/8+4 x content pattern in {00.., 00 00.., 00 80.., 00 ff.., ff.., 80.., 7f ff.., 01 00.., zeros, probe} \
        plus truncated / trailing-garbage variants, through from_der, TryFrom<AnyRef>, TryFrom<UintRef>; RLP: all 256 single bytes, short/long string forms (minimal and padded length-of-length), list prefixes, truncations x the same contents through rlp::decode. \
        Oracle: independent recogniser of 'exactly one canonical encoding of a value < 2^BITS'. Encoders: values with the 7f/80 boundary in the top octet at every octet length vs reference encoders, and decode(encode(x)) = x. Non-trivial: input longer than a header.");
    ctx.assume("the third-party rlp crate's top-level decode does not insist on consuming its whole input: inputs with trailing bytes after a complete RLP item are not generated (container-layer leniency, not attributed to crypto-bigint)");
    let ctx = &ctx;
    fam_der!(ctx, U64, 1);
    fam_der!(ctx, U128, 2);
    fam_der!(ctx, U256, 4);
    fam_der!(ctx, U8192, 128);
    {
        fam_der!(ctx, U192, 3);
        fam_der!(ctx, U384, 6);
        fam_der!(ctx, U512, 8);
        fam_der!(ctx, U1024, 16);
    }
    fam_width_table(ctx);
    fam_rlp!(ctx, U64, 1);
    fam_rlp!(ctx, U128, 2);
    fam_rlp!(ctx, U192, 3);
    fam_rlp!(ctx, U256, 4);
    let _ = (Uint::<1>::ZERO, <U64 as Encoding>::to_be_bytes(&U64::ZERO));
    std::process::exit(ctx.finish());
}
