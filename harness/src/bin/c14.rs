//! C14 — every signed division flavour satisfies n = q*d + r with its sign convention (engine E1).
use crypto_bigint::subtle::CtOption;
use crypto_bigint::{CheckedDiv, ConstCtOption, DivVartime, Int, NonZero, Uint, Wrapping};
use num_bigint::BigInt;
use num_integer::Integer as _;
use num_traits::{One, Signed, Zero};
use vcommon::*;

const P: &str = "C14";

macro_rules! chk {
    ($cs:expr, $name:expr, $cls:expr, $exp:expr, $e:expr) => {
        $cs.check($name, $cls, $exp, guard(|| $e))
    };
}

fn sbig(l: &[u64]) -> BigInt {
    let n = l.len();
    let u = to_big(l);
    if l[n - 1] >> 63 == 1 { BigInt::from(u) - (BigInt::one() << (64 * n)) } else { BigInt::from(u) }
}
fn tc(v: &BigInt, n: usize) -> Limbs {
    let m = BigInt::one() << (64 * n);
    let r = ((v % &m) + &m) % &m;
    from_big(&r.to_biguint().unwrap(), n)
}
fn in_range(v: &BigInt, n: usize) -> bool {
    let h = BigInt::one() << (64 * n - 1);
    *v >= -&h && *v < h
}
fn iw<const N: usize>(x: &Int<N>) -> Limbs {
    w(x.as_uint())
}
fn i<const N: usize>(l: &[u64]) -> Int<N> {
    u::<N>(l).as_int()
}
fn icopt<const N: usize>(o: ConstCtOption<Int<N>>) -> Option<Limbs> {
    Option::<Int<N>>::from(o).map(|x| iw(&x))
}
fn iopt<const N: usize>(o: CtOption<Int<N>>) -> Out {
    match Option::<Int<N>>::from(o) {
        Some(x) => Out::Val(iw(&x)),
        None => Out::None,
    }
}
/// (quotient option, remainder) flattened: [is_some, q.., r..] with q omitted when none
fn qr(q: Option<Limbs>, r: &[u64]) -> Out {
    let mut v = vec![q.is_some() as u64];
    if let Some(q) = q {
        v.extend(q);
    }
    v.extend_from_slice(r);
    Out::Val(v)
}

fn signed_values(n: usize, ctx: &Ctx, cap: usize) -> Vec<Limbs> {
    let th = ctx.thorough();
    let mut v = match (th, n) {
        (true, 1 | 2) => full(n, &l13(ctx.seed)),
        (true, 3 | 4) => {
            let mut v = full(n, &l5());
            v.extend(runs(n, &l9(), 3));
            v
        }
        (true, _) => runs(n, &l9(), 3),
        (false, 1 | 2) => full(n, &l9()),
        (false, _) => runs(n, &l5(), 2),
    };
    let bits_ = 64 * n;
    let min: BigInt = -(BigInt::one() << (bits_ - 1));
    let max: BigInt = (BigInt::one() << (bits_ - 1)) - 1;
    let mut sp = vec![min.clone(), &min + 1, BigInt::from(-1), BigInt::zero(), BigInt::one(), max.clone(), &max - 1, BigInt::from(2), BigInt::from(-2), BigInt::from(3), BigInt::from(-3)];
    for j in (0..bits_ - 1).filter(|j| th || j % 64 <= 1 || j % 64 >= 62 || j % 8 == 5) {
        sp.push(BigInt::one() << j);
        sp.push(-(BigInt::one() << j));
        sp.push((BigInt::one() << j) + 1);
        sp.push(-(BigInt::one() << j) - 1);
    }
    v.extend(sp.iter().map(|x| tc(x, n)));
    let (g1, g2) = generic_limbs(ctx.seed);
    v.push((0..n).map(|i| if i % 2 == 0 { g1 } else { g2 }.rotate_left(i as u32)).collect());
    v.push((0..n).map(|i| if i % 2 == 0 { g2 } else { g1 }.rotate_left(i as u32) | if i == n - 1 { TOP } else { 0 }).collect());
    thin(dedup(v), cap)
}

/// oracle: truncating and flooring division of BigInts
fn trunc(n: &BigInt, d: &BigInt) -> (BigInt, BigInt) {
    let q = n / d; // BigInt `/` truncates toward zero
    let r = n - &q * d;
    (q, r)
}
fn floor(n: &BigInt, d: &BigInt) -> (BigInt, BigInt) {
    let (q, r) = n.div_mod_floor(d);
    (q, r)
}

fn fam_int<const N: usize, const M: usize>(ctx: &Ctx) {
    let fam = "int_div";
    if !ctx.want(fam) {
        return;
    }
    let wname = format!("Int<{N}>/<{M}>");
    let cap = if ctx.thorough() { 1700 } else { 800 };
    let ns = signed_values(N, ctx, cap);
    let mut ds = signed_values(M, ctx, cap);
    // NEAR(q*d) dividends are produced by adding q*d, q*d+-1 for structured (q, d) below
    ds.push(vec![0u64; M]);
    let ds = dedup(ds);
    let mut cases: Vec<(Limbs, usize)> = Vec::new();
    for a in &ns {
        for di in 0..ds.len() {
            cases.push((a.clone(), di));
        }
    }
    let qs: Vec<BigInt> = [-3i64, -2, -1, 1, 2, 3, 7, -7].iter().map(|&x| BigInt::from(x)).chain([BigInt::one() << (32 * N), -(BigInt::one() << (32 * N)) + 1]).collect();
    for (di, d) in ds.iter().enumerate().step_by(if ctx.thorough() { 1 } else { 3 }) {
        let sd = sbig(d);
        for q in &qs {
            let p = q * &sd;
            for off in [-1i32, 0, 1] {
                let x = &p + off;
                if in_range(&x, N) {
                    cases.push((tc(&x, N), di));
                }
            }
        }
    }
    ctx.par_for(fam, &wname, cases.len(), |idx, l| {
        let (a, di) = (&cases[idx].0, cases[idx].1);
        let d = &ds[di];
        let ins: [&[u64]; 2] = [a, d];
        let mut cs = Case::new(l, P, fam, &wname, &ins);
        let (ia, id) = (i::<N>(a), i::<M>(d));
        let (sn, sd) = (sbig(a), sbig(d));
        let min_n: BigInt = -(BigInt::one() << (64 * N - 1));
        // ---------------- signed divisor
        if sd.is_zero() {
            chk!(cs, "Int::checked_div_vartime", "d=0", &Out::None, iopt(ia.checked_div_vartime(&id)));
            chk!(cs, "Int::checked_div_floor_vartime", "d=0", &Out::None, iopt(ia.checked_div_floor_vartime(&id)));
            if N == M {
                let id_n = i::<N>(d);
                chk!(cs, "Int::checked_div", "d=0", &Out::None, iopt(ia.checked_div(&id_n)));
                chk!(cs, "Int:CheckedDiv", "d=0", &Out::None, iopt(CheckedDiv::checked_div(&ia, &id_n)));
                chk!(cs, "Int::checked_div_floor", "d=0", &Out::None, iopt(ia.checked_div_floor(&id_n)));
            }
            cs.l.class("d=0");
        } else {
            let nz = NonZero::new(id).unwrap();
            let (tq, tr) = trunc(&sn, &sd);
            let (fq, fr) = floor(&sn, &sd);
            let min_over = !in_range(&tq, N); // only MIN / -1
            let cls = if min_over {
                cs.l.class("MIN / -1");
                "MIN/-1"
            } else if sn.is_negative() != sd.is_negative() {
                "signs_differ"
            } else {
                "signs_equal"
            };
            cs.l.nontrivial += (!tr.is_zero()) as u64;
            if !tr.is_zero() && sn.is_negative() != sd.is_negative() {
                cs.l.class("inexact with opposite signs (floor != trunc)");
            }
            if sn == min_n {
                cs.l.class("n = MIN");
            }
            let tq_o = if min_over { None } else { Some(tc(&tq, N)) };
            let fq_o = if !in_range(&fq, N) { None } else { Some(tc(&fq, N)) };
            // truncating: sign(r) in {0, sign n}
            let e = qr(tq_o.clone(), &tc(&tr, M));
            chk!(cs, "Int::checked_div_rem_vartime", cls, &e, {
                let (q, r) = ia.checked_div_rem_vartime(&nz);
                qr(icopt(q), &iw(&r))
            });
            cs.group();
            let eq = match &tq_o {
                Some(q) => Out::v(q),
                None => Out::None,
            };
            chk!(cs, "Int::checked_div_vartime", cls, &eq, iopt(ia.checked_div_vartime(&id)));
            cs.group();
            chk!(cs, "Int::rem_vartime", cls, &Out::v(&tc(&tr, M)), Out::v(&iw(&ia.rem_vartime(&nz))));
            // flooring: sign(r) in {0, sign d}
            cs.group();
            let e = qr(fq_o.clone(), &tc(&fr, M));
            chk!(cs, "Int::checked_div_rem_floor_vartime", cls, &e, {
                let (q, r) = ia.checked_div_rem_floor_vartime(&nz);
                qr(icopt(q), &iw(&r))
            });
            cs.group();
            let efq = match &fq_o {
                Some(q) => Out::v(q),
                None => Out::None,
            };
            chk!(cs, "Int::checked_div_floor_vartime", cls, &efq, iopt(ia.checked_div_floor_vartime(&id)));
            if N == M {
                let id_n = i::<N>(d);
                let nzn = NonZero::new(id_n).unwrap();
                cs.group();
                let e = qr(tq_o.clone(), &tc(&tr, N));
                chk!(cs, "Int::checked_div_rem", cls, &e, {
                    let (q, r) = ia.checked_div_rem(&nzn);
                    qr(icopt(q), &iw(&r))
                });
                // ct ~ vartime twin in the same group (route equivalence, C15)
                chk!(cs, "Int::checked_div_rem_vartime (same width)", cls, &e, {
                    let (q, r) = ia.checked_div_rem_vartime(&nzn);
                    qr(icopt(q), &iw(&r))
                });
                cs.group();
                chk!(cs, "Int::checked_div", cls, &eq, iopt(ia.checked_div(&id_n)));
                chk!(cs, "Int::checked_div_vartime (same width)", cls, &eq, iopt(ia.checked_div_vartime(&id_n)));
                chk!(cs, "Int:CheckedDiv", cls, &eq, iopt(CheckedDiv::checked_div(&ia, &id_n)));
                chk!(cs, "&Int/&NonZero<Int>", cls, &eq, iopt(&ia / &nzn));
                chk!(cs, "Int/&NonZero<Int>", cls, &eq, iopt(ia / &nzn));
                chk!(cs, "&Int/NonZero<Int>", cls, &eq, iopt(&ia / nzn));
                chk!(cs, "Int/NonZero<Int>", cls, &eq, iopt(ia / nzn));
                if !min_over {
                    let q = Out::v(tq_o.as_ref().unwrap());
                    chk!(cs, "Int:DivVartime", cls, &q, Out::v(&iw(&DivVartime::div_vartime(&ia, &nzn))));
                    chk!(cs, "Wrapping<Int>/NonZero<Int>", cls, &q, Out::v(&iw(&(Wrapping(ia) / nzn).0)));
                    chk!(cs, "&Wrapping<Int>/NonZero<Int>", cls, &q, Out::v(&iw(&(&Wrapping(ia) / nzn).0)));
                    chk!(cs, "&Wrapping<Int>/&NonZero<Int>", cls, &q, Out::v(&iw(&(&Wrapping(ia) / &nzn).0)));
                    chk!(cs, "Wrapping<Int>/&NonZero<Int>", cls, &q, Out::v(&iw(&(Wrapping(ia) / &nzn).0)));
                    chk!(cs, "Int/=NonZero<Int>", cls, &q, {
                        let mut x = ia;
                        x /= nzn;
                        Out::v(&iw(&x))
                    });
                    chk!(cs, "Int/=&NonZero<Int>", cls, &q, {
                        let mut x = ia;
                        x /= &nzn;
                        Out::v(&iw(&x))
                    });
                    chk!(cs, "Wrapping<Int>/=NonZero<Int>", cls, &q, {
                        let mut x = Wrapping(ia);
                        x /= nzn;
                        Out::v(&iw(&x.0))
                    });
                    chk!(cs, "Wrapping<Int>/=&NonZero<Int>", cls, &q, {
                        let mut x = Wrapping(ia);
                        x /= &nzn;
                        Out::v(&iw(&x.0))
                    });
                }
                cs.group();
                let er = Out::v(&tc(&tr, N));
                chk!(cs, "Int::rem", cls, &er, Out::v(&iw(&ia.rem(&nzn))));
                chk!(cs, "Int::rem_vartime (same width)", cls, &er, Out::v(&iw(&ia.rem_vartime(&nzn))));
                chk!(cs, "&Int%&NonZero<Int>", cls, &er, Out::v(&iw(&(&ia % &nzn))));
                chk!(cs, "Int%&NonZero<Int>", cls, &er, Out::v(&iw(&(ia % &nzn))));
                chk!(cs, "&Int%NonZero<Int>", cls, &er, Out::v(&iw(&(&ia % nzn))));
                chk!(cs, "Int%NonZero<Int>", cls, &er, Out::v(&iw(&(ia % nzn))));
                chk!(cs, "Int%=NonZero<Int>", cls, &er, {
                    let mut x = ia;
                    x %= nzn;
                    Out::v(&iw(&x))
                });
                chk!(cs, "Int%=&NonZero<Int>", cls, &er, {
                    let mut x = ia;
                    x %= &nzn;
                    Out::v(&iw(&x))
                });
                chk!(cs, "Wrapping<Int>%NonZero<Int>", cls, &er, Out::v(&iw(&(Wrapping(ia) % nzn).0)));
                chk!(cs, "&Wrapping<Int>%&NonZero<Int>", cls, &er, Out::v(&iw(&(&Wrapping(ia) % &nzn).0)));
                chk!(cs, "Wrapping<Int>%=NonZero<Int>", cls, &er, {
                    let mut x = Wrapping(ia);
                    x %= nzn;
                    Out::v(&iw(&x.0))
                });
                cs.group();
                let e = qr(fq_o.clone(), &tc(&fr, N));
                chk!(cs, "Int::checked_div_rem_floor", cls, &e, {
                    let (q, r) = ia.checked_div_rem_floor(&nzn);
                    qr(icopt(q), &iw(&r))
                });
                chk!(cs, "Int::checked_div_rem_floor_vartime (same width)", cls, &e, {
                    let (q, r) = ia.checked_div_rem_floor_vartime(&nzn);
                    qr(icopt(q), &iw(&r))
                });
                cs.group();
                chk!(cs, "Int::checked_div_floor", cls, &efq, iopt(ia.checked_div_floor(&id_n)));
                chk!(cs, "Int::checked_div_floor_vartime (same width)", cls, &efq, iopt(ia.checked_div_floor_vartime(&id_n)));
            }
        }
        // ---------------- unsigned divisor: d's limbs read as a Uint<M>
        let ud = to_big(d);
        if !ud.is_zero() {
            let bd = BigInt::from(ud.clone());
            let nzu = NonZero::new(u::<M>(d)).unwrap();
            let (tq, tr) = trunc(&sn, &bd);
            let (fq, fr) = floor(&sn, &bd);
            // the truncating remainder is returned as an Int<M>: representable iff |r| <= 2^(64M-1) (r = MIN ok)
            let r_fits = in_range(&tr, M);
            let cls = if r_fits { "any" } else { "remainder_exceeds_Int<M>" };
            if !r_fits {
                cs.l.class("uint divisor: truncating remainder not representable in Int<M>");
            }
            cs.group();
            if r_fits {
                let e = cat2(&tc(&tq, N), &tc(&tr, M));
                chk!(cs, "Int::div_rem_uint_vartime", cls, &e, {
                    let (q, r) = ia.div_rem_uint_vartime(&nzu);
                    cat2(&iw(&q), &iw(&r))
                });
                cs.group();
                chk!(cs, "Int::rem_uint_vartime", cls, &Out::v(&tc(&tr, M)), Out::v(&iw(&ia.rem_uint_vartime(&nzu))));
            } else {
                // the property cannot be met by the return type; recorded as a finding through the class key
                let e = cat2(&tc(&tq, N), &tc(&tr, M));
                chk!(cs, "Int::div_rem_uint_vartime", cls, &Out::Val(vec![u64::MAX; 1]), {
                    let (q, r) = ia.div_rem_uint_vartime(&nzu);
                    let _ = &e;
                    cat2(&iw(&q), &iw(&r))
                });
            }
            cs.group();
            chk!(cs, "Int::div_uint_vartime", "any", &Out::v(&tc(&tq, N)), Out::v(&iw(&ia.div_uint_vartime(&nzu))));
            cs.group();
            let e = cat2(&tc(&fq, N), &from_big(&fr.to_biguint().unwrap(), M));
            chk!(cs, "Int::div_rem_floor_uint_vartime", "any", &e, {
                let (q, r) = ia.div_rem_floor_uint_vartime(&nzu);
                cat2(&iw(&q), &w(&r))
            });
            cs.group();
            chk!(cs, "Int::div_floor_uint_vartime", "any", &Out::v(&tc(&fq, N)), Out::v(&iw(&ia.div_floor_uint_vartime(&nzu))));
            cs.group();
            let nr = Out::v(&from_big(&fr.to_biguint().unwrap(), M));
            chk!(cs, "Int::normalized_rem_vartime", "any", &nr, Out::v(&w(&ia.normalized_rem_vartime(&nzu))));
            if N == M {
                let nzn = NonZero::new(u::<N>(d)).unwrap();
                cs.group();
                let e = cat2(&tc(&tq, N), &tc(&tr, N));
                chk!(cs, "Int::div_rem_uint", "any", &e, {
                    let (q, r) = ia.div_rem_uint(&nzn);
                    cat2(&iw(&q), &iw(&r))
                });
                if r_fits {
                    chk!(cs, "Int::div_rem_uint_vartime (same width)", "any", &e, {
                        let (q, r) = ia.div_rem_uint_vartime(&nzn);
                        cat2(&iw(&q), &iw(&r))
                    });
                }
                cs.group();
                let eq = Out::v(&tc(&tq, N));
                chk!(cs, "Int::div_uint", "any", &eq, Out::v(&iw(&ia.div_uint(&nzn))));
                chk!(cs, "Int::div_uint_vartime (same width)", "any", &eq, Out::v(&iw(&ia.div_uint_vartime(&nzn))));
                chk!(cs, "&Int/&NonZero<Uint>", "any", &eq, Out::v(&iw(&(&ia / &nzn))));
                chk!(cs, "Int/&NonZero<Uint>", "any", &eq, Out::v(&iw(&(ia / &nzn))));
                chk!(cs, "&Int/NonZero<Uint>", "any", &eq, Out::v(&iw(&(&ia / nzn))));
                chk!(cs, "Int/NonZero<Uint>", "any", &eq, Out::v(&iw(&(ia / nzn))));
                chk!(cs, "Int/=NonZero<Uint>", "any", &eq, {
                    let mut x = ia;
                    x /= nzn;
                    Out::v(&iw(&x))
                });
                chk!(cs, "Int/=&NonZero<Uint>", "any", &eq, {
                    let mut x = ia;
                    x /= &nzn;
                    Out::v(&iw(&x))
                });
                chk!(cs, "Wrapping<Int>/NonZero<Uint>", "any", &eq, Out::v(&iw(&(Wrapping(ia) / nzn).0)));
                chk!(cs, "&Wrapping<Int>/&NonZero<Uint>", "any", &eq, Out::v(&iw(&(&Wrapping(ia) / &nzn).0)));
                chk!(cs, "Wrapping<Int>/=NonZero<Uint>", "any", &eq, {
                    let mut x = Wrapping(ia);
                    x /= nzn;
                    Out::v(&iw(&x.0))
                });
                cs.group();
                let er = Out::v(&tc(&tr, N));
                chk!(cs, "Int::rem_uint", "any", &er, Out::v(&iw(&ia.rem_uint(&nzn))));
                if r_fits {
                    chk!(cs, "Int::rem_uint_vartime (same width)", "any", &er, Out::v(&iw(&ia.rem_uint_vartime(&nzn))));
                }
                chk!(cs, "&Int%&NonZero<Uint>", "any", &er, Out::v(&iw(&(&ia % &nzn))));
                chk!(cs, "Int%NonZero<Uint>", "any", &er, Out::v(&iw(&(ia % nzn))));
                chk!(cs, "Int%=NonZero<Uint>", "any", &er, {
                    let mut x = ia;
                    x %= nzn;
                    Out::v(&iw(&x))
                });
                chk!(cs, "Wrapping<Int>%NonZero<Uint>", "any", &er, Out::v(&iw(&(Wrapping(ia) % nzn).0)));
                chk!(cs, "Wrapping<Int>%=&NonZero<Uint>", "any", &er, {
                    let mut x = Wrapping(ia);
                    x %= &nzn;
                    Out::v(&iw(&x.0))
                });
                cs.group();
                let e = cat2(&tc(&fq, N), &from_big(&fr.to_biguint().unwrap(), N));
                chk!(cs, "Int::div_rem_floor_uint", "any", &e, {
                    let (q, r) = ia.div_rem_floor_uint(&nzn);
                    cat2(&iw(&q), &w(&r))
                });
                chk!(cs, "Int::div_rem_floor_uint_vartime (same width)", "any", &e, {
                    let (q, r) = ia.div_rem_floor_uint_vartime(&nzn);
                    cat2(&iw(&q), &w(&r))
                });
                cs.group();
                chk!(cs, "Int::div_floor_uint", "any", &Out::v(&tc(&fq, N)), Out::v(&iw(&ia.div_floor_uint(&nzn))));
                chk!(cs, "Int::div_floor_uint_vartime (same width)", "any", &Out::v(&tc(&fq, N)), Out::v(&iw(&ia.div_floor_uint_vartime(&nzn))));
                cs.group();
                chk!(cs, "Int::normalized_rem", "any", &Out::v(&from_big(&fr.to_biguint().unwrap(), N)), Out::v(&w(&ia.normalized_rem(&nzn))));
                chk!(cs, "Int::normalized_rem_vartime (same width)", "any", &Out::v(&from_big(&fr.to_biguint().unwrap(), N)), Out::v(&w(&ia.normalized_rem_vartime(&nzn))));
            }
        }
    });
}

fn cat2(a: &[u64], b: &[u64]) -> Out {
    let mut v = a.to_vec();
    v.extend_from_slice(b);
    Out::Val(v)
}

fn main() {
    let ctx = Ctx::from_args(P, "exploration");
    ctx.set_rule("E1: complete (n, d) products of the signed alphabet (MIN, MIN+1, -1, 0, 1, 2, 3, MAX, +-2^j, +-(2^j+1), L9/L5 patterns) in all four sign combinations, plus NEAR(q*d) dividends (exact and off-by-one) for structured q; \
        Int<1,2,4,8> and mixed widths for the vartime forms; signed and unsigned divisors; oracle: BigInt truncating and flooring division. Every returned (q, r) is compared component-wise, which implies n = q*d + r and |r| < |d|. Non-trivial: inexact division.");
    ctx.assume("limb values outside the stated alphabets are not explored; oracle = num-bigint / num-integer div_mod_floor");
    ctx.assume("DivVartime and Wrapping<Int> division (which return a bare Int) are not driven with MIN / -1");
    let ctx = &ctx;
    fam_int::<1, 1>(ctx);
    fam_int::<2, 2>(ctx);
    fam_int::<4, 4>(ctx);
    fam_int::<8, 8>(ctx);
    fam_int::<2, 1>(ctx);
    fam_int::<1, 2>(ctx);
    fam_int::<4, 2>(ctx);
    fam_int::<2, 4>(ctx);
    fam_int::<8, 4>(ctx);
    fam_int::<4, 1>(ctx);
    if ctx.thorough() {
        fam_int::<3, 3>(ctx);
        fam_int::<3, 2>(ctx);
        fam_int::<16, 16>(ctx);
        fam_int::<16, 8>(ctx);
        fam_int::<8, 16>(ctx);
    }
    let _ = Uint::<1>::ZERO;
    std::process::exit(ctx.finish());
}
