//! C09 — modular exponentiation, multi-exponentiation and linear combination are exact (engine E1).
use crypto_bigint::modular::{BoxedMontyForm, BoxedMontyParams, ConstMontyForm, ConstMontyParams, MontyForm, MontyParams};
use crypto_bigint::{
    impl_modulus, Monty, MultiExponentiate, MultiExponentiateBoundedExp, Odd, Pow, PowBoundedExp, Uint, U128, U256, U64,
};
use num_bigint::BigUint;
use num_traits::{One, Zero};
use vcommon::*;

const P: &str = "C09";

macro_rules! chk {
    ($cs:expr, $name:expr, $exp:expr, $e:expr) => {
        $cs.check($name, "any", $exp, guard(|| $e))
    };
}

fn moduli(n: usize, th: bool) -> Vec<BigUint> {
    let b = 64 * n;
    let mut v: Vec<BigUint> = [1u32, 3, 5, 7, 9, 15, 251].iter().map(|&x| BigUint::from(x)).collect();
    v.extend([pow2(b) - 1u32, pow2(b - 1) + 1u32, pow2(b) / 3u32 | BigUint::one(), pow2(b) / 4u32 | BigUint::one(), pow2(b) - BigUint::from(MAX)]);
    if n > 1 {
        v.push(pow2(64) + 13u32);
        v.push(pow2(64 * (n - 1)) - 1u32);
    }
    if th {
        v.extend([pow2(b) - 3u32, pow2(b - 2) - 1u32, BigUint::from(4093u32), BigUint::from(65537u32)]);
    }
    v.retain(|m| m.bit(0));
    v.sort();
    v.dedup();
    v
}

fn bases(m: &BigUint, n: usize, seed: u64) -> Vec<BigUint> {
    let (g1, g2) = generic_limbs(seed);
    let g = to_big(&(0..n).map(|i| if i % 2 == 0 { g1 } else { g2 }.rotate_left(i as u32)).collect::<Vec<_>>());
    let mut v = vec![BigUint::zero(), BigUint::one() % m, BigUint::from(2u32) % m, (m + m - 1u32) % m, &g % m, (m - 1u32 - (&g % m) + m) % m];
    v.sort();
    v.dedup();
    v
}

fn exponents(e: usize, th: bool, seed: u64) -> Vec<Limbs> {
    let mut v: Vec<Limbs> = vec![vec![0; e], vec![MAX; e]];
    let bits_ = 64 * e;
    let js: Vec<usize> = if e <= 2 || th { (0..bits_).collect() } else { (0..bits_).filter(|j| j % 64 <= 4 || j % 64 >= 60 || j % 16 == 9).collect() };
    for j in js {
        v.push(from_big(&pow2(j), e));
        v.push(from_big(&(pow2(j) - 1u32), e));
        v.push(from_big(&(pow2(j) + 1u32), e));
    }
    v.extend(if e <= 2 { full(e, &l5()) } else { runs(e, &l3(), 2) });
    let (g1, g2) = generic_limbs(seed);
    v.push((0..e).map(|i| if i % 2 == 0 { g1 } else { g2 }.rotate_left(7 * i as u32)).collect());
    dedup(v)
}

fn ks(e: usize, th: bool) -> Vec<u32> {
    let bits_ = 64 * e as u32;
    if e <= 2 {
        return (0..=bits_).collect();
    }
    let mut v = vec![0u32, 1, 2, 3, 4, 5, 7, 8, 63, 64, 65, 127, 128, 129, bits_ - 65, bits_ - 64, bits_ - 63, bits_ - 5, bits_ - 4, bits_ - 3, bits_ - 1, bits_];
    if th {
        v.extend((0..=bits_).step_by(13));
    }
    v.retain(|&k| k <= bits_);
    v.sort();
    v.dedup();
    v
}

fn oracle(base: &BigUint, e: &Limbs, k: u32, m: &BigUint) -> BigUint {
    let ex = to_big(e) % pow2(k as usize);
    if m.is_one() {
        return BigUint::zero();
    }
    base.modpow(&ex, m)
}

/// Dyn (MontyForm<N>) with exponent Uint<E>, and the boxed twin of the same width
fn fam_pow<const N: usize, const E: usize>(ctx: &Ctx) {
    let fam = "pow";
    if !ctx.want(fam) {
        return;
    }
    let th = ctx.thorough();
    let wname = format!("MontyForm<{N}>^Uint<{E}>");
    let ms = moduli(N, th);
    let es = exponents(E, th, ctx.seed);
    let kk = ks(E, th);
    // index space: (modulus, base, exponent); all k inside (amortises parameter construction)
    let mut jobs: Vec<(usize, BigUint, usize)> = Vec::new();
    for (mi, m) in ms.iter().enumerate() {
        for b in bases(m, N, ctx.seed) {
            for ei in 0..es.len() {
                jobs.push((mi, b.clone(), ei));
            }
        }
    }
    let stride = if !th && N >= 8 { 3 } else { 1 };
    let jobs: Vec<_> = jobs.into_iter().step_by(stride).collect();
    // 16-limb bases with 16-limb exponents: ~1 ms per power and ~100 values of k per job; the complete job list
    // (240 k) did not finish in 25 min, so it is stride-thinned to 5000 jobs (every modulus and base still occurs)
    let jobs: Vec<_> = if th && N * E >= 64 && jobs.len() > 5000 {
        let n = jobs.len();
        (0..5000).map(|i| jobs[i * (n - 1) / 4999].clone()).collect()
    } else {
        jobs
    };
    ctx.par_for(fam, &wname, jobs.len(), |i, l| {
        let (mi, b, ei) = (&jobs[i].0, &jobs[i].1, jobs[i].2);
        let m = &ms[*mi];
        let e = &es[ei];
        let ml = from_big(m, N);
        let bl = from_big(b, N);
        let params = MontyParams::<N>::new_vartime(Odd::new(u::<N>(&ml)).unwrap());
        let x = MontyForm::new(&u::<N>(&bl), params);
        let bparams = BoxedMontyParams::new_vartime(Odd::new(bx(&ml)).unwrap());
        let xb = BoxedMontyForm::new(bx(&bl), bparams);
        let ue = u::<E>(e);
        let be = bx(e);
        for &k in &kk {
            let ins: [&[u64]; 3] = [&bl, e, &ml];
            let mut cs = Case::new(l, P, fam, &wname, &ins);
            cs.extra = Some(format!("exponent_bits={k}"));
            let exp = Out::v(&from_big(&oracle(b, e, k, m), N));
            cs.l.nontrivial += (k > 0 && !is_zero(e) && b.bits() > 1) as u64;
            if k == 0 {
                cs.l.class("k = 0 (result one)");
            }
            if k % 4 != 0 {
                cs.l.class("k not a multiple of the window size");
            }
            chk!(cs, "MontyForm::pow_bounded_exp", &exp, Out::v(&w(&x.pow_bounded_exp(&ue, k).retrieve())));
            chk!(cs, "MontyForm:PowBoundedExp", &exp, Out::v(&w(&PowBoundedExp::pow_bounded_exp(&x, &ue, k).retrieve())));
            chk!(cs, "BoxedMontyForm::pow_bounded_exp", &exp, Out::v(&bw(&xb.pow_bounded_exp(&be, k).retrieve())));
            chk!(cs, "BoxedMontyForm:PowBoundedExp", &exp, Out::v(&bw(&PowBoundedExp::pow_bounded_exp(&xb, &be, k).retrieve())));
            // canonical form of the result
            cs.group();
            chk!(cs, "MontyForm::pow_bounded_exp (representative < m)", &Out::Val(vec![1]), {
                let r = x.pow_bounded_exp(&ue, k);
                Out::Val(vec![(to_big(&w(r.as_montgomery())) < *m || m.is_one()) as u64])
            });
            if k == 64 * E as u32 {
                cs.group();
                chk!(cs, "MontyForm::pow", &exp, Out::v(&w(&x.pow(&ue).retrieve())));
                chk!(cs, "MontyForm:Pow", &exp, Out::v(&w(&Pow::pow(&x, &ue).retrieve())));
                chk!(cs, "BoxedMontyForm::pow", &exp, Out::v(&bw(&xb.pow(&be).retrieve())));
                // multi-exponentiation with a single term must equal pow
                chk!(cs, "MultiExponentiate [1]", &exp, Out::v(&w(&MontyForm::multi_exponentiate(&[(x, ue)]).retrieve())));
                chk!(cs, "MultiExponentiate slice[1]", &exp, Out::v(&w(&MontyForm::multi_exponentiate(vec![(x, ue)].as_slice()).retrieve())));
            }
        }
    });
}

/// multi-exponentiation: product of the individual powers
fn fam_multi<const N: usize, const E: usize>(ctx: &Ctx) {
    let fam = "multi_exp";
    if !ctx.want(fam) {
        return;
    }
    let th = ctx.thorough();
    let wname = format!("MontyForm<{N}>^Uint<{E}>");
    let ms = moduli(N, th);
    let es = thin(exponents(E, th, ctx.seed), if th { 60 } else { 24 });
    let kk: Vec<u32> = if E <= 1 { (0..=64).collect() } else { ks(E, th) };
    let ne = es.len();
    ctx.par_for(fam, &wname, ms.len() * ne * ne, |i, l| {
        let (mi, e1, e2) = (i / (ne * ne), (i / ne) % ne, i % ne);
        let m = &ms[mi];
        let ml = from_big(m, N);
        let bs = bases(m, N, ctx.seed);
        let params = MontyParams::<N>::new_vartime(Odd::new(u::<N>(&ml)).unwrap());
        let (b1, b2, b3) = (&bs[bs.len() - 1], &bs[(e1 + e2) % bs.len()], &bs[bs.len() / 2]);
        let mk = |b: &BigUint| MontyForm::new(&u::<N>(&from_big(b, N)), params);
        let (x1, x2, x3) = (mk(b1), mk(b2), mk(b3));
        let (ue1, ue2) = (u::<E>(&es[e1]), u::<E>(&es[e2]));
        for &k in kk.iter().step_by(if th { 1 } else { 3 }) {
            let ins: [&[u64]; 3] = [&es[e1], &es[e2], &ml];
            let mut cs = Case::new(l, P, fam, &wname, &ins);
            cs.extra = Some(format!("exponent_bits={k} bases={b1},{b2},{b3}"));
            cs.l.nontrivial += (k > 0) as u64;
            let p2 = (oracle(b1, &es[e1], k, m) * oracle(b2, &es[e2], k, m)) % m;
            let p3 = (&p2 * oracle(b3, &es[e1], k, m)) % m;
            let e2o = Out::v(&from_big(&p2, N));
            chk!(cs, "MultiExponentiateBoundedExp [2]", &e2o, Out::v(&w(&MontyForm::multi_exponentiate_bounded_exp(&[(x1, ue1), (x2, ue2)], k).retrieve())));
            chk!(cs, "MultiExponentiateBoundedExp slice[2]", &e2o, Out::v(&w(&MontyForm::multi_exponentiate_bounded_exp(vec![(x1, ue1), (x2, ue2)].as_slice(), k).retrieve())));
            // differential: product of single bounded pows (no oracle)
            chk!(cs, "product of pow_bounded_exp [2]", &e2o, Out::v(&w(&(x1.pow_bounded_exp(&ue1, k) * x2.pow_bounded_exp(&ue2, k)).retrieve())));
            cs.group();
            let e3o = Out::v(&from_big(&p3, N));
            chk!(cs, "MultiExponentiateBoundedExp [3]", &e3o, Out::v(&w(&MontyForm::multi_exponentiate_bounded_exp(&[(x1, ue1), (x2, ue2), (x3, ue1)], k).retrieve())));
            chk!(cs, "MultiExponentiateBoundedExp slice[3]", &e3o, Out::v(&w(&MontyForm::multi_exponentiate_bounded_exp(vec![(x1, ue1), (x2, ue2), (x3, ue1)].as_slice(), k).retrieve())));
        }
    });
}

// compile-time moduli
impl_modulus!(C64A, U64, "00000000000000fb");
impl_modulus!(C64B, U64, "ffffffffffffffff");
impl_modulus!(C128A, U128, "ffffffffffffffffffffffffffffffff");
impl_modulus!(C128B, U128, "0000000000000001000000000000000d");
impl_modulus!(C256A, U256, "ffffffff00000001000000000000000000000000ffffffffffffffffffffffff");

macro_rules! fam_const {
    ($ctx:expr, $ty:ident, $n:literal, $e:literal) => {{
        let ctx: &Ctx = $ctx;
        if ctx.want("const_pow") {
            let th = ctx.thorough();
            let wname = format!("ConstMontyForm<{},{}>^Uint<{}>", stringify!($ty), $n, $e);
            let m = to_big(&w(<$ty as ConstMontyParams<$n>>::MODULUS.as_ref()));
            let bs = bases(&m, $n, ctx.seed);
            let es = exponents($e, th, ctx.seed);
            let kk = ks($e, th);
            let ne = es.len();
            let params = MontyParams::<$n>::from_const_params::<$ty>();
            ctx.par_for("const_pow", &wname, bs.len() * ne, |i, l| {
                let (b, e) = (&bs[i / ne], &es[i % ne]);
                let bl = from_big(b, $n);
                let x = ConstMontyForm::<$ty, $n>::new(&u::<$n>(&bl));
                let xd = MontyForm::new(&u::<$n>(&bl), params);
                let ue = u::<$e>(e);
                for &k in &kk {
                    let ins: [&[u64]; 2] = [&bl, e];
                    let mut cs = Case::new(l, P, "const_pow", &wname, &ins);
                    cs.extra = Some(format!("exponent_bits={k}"));
                    cs.l.nontrivial += (k > 0 && !is_zero(e)) as u64;
                    let exp = Out::v(&from_big(&oracle(b, e, k, &m), $n));
                    chk!(cs, "ConstMontyForm::pow_bounded_exp", &exp, Out::v(&w(&x.pow_bounded_exp(&ue, k).retrieve())));
                    chk!(cs, "ConstMontyForm:PowBoundedExp", &exp, Out::v(&w(&PowBoundedExp::pow_bounded_exp(&x, &ue, k).retrieve())));
                    chk!(cs, "MontyForm(from_const_params)::pow_bounded_exp", &exp, Out::v(&w(&xd.pow_bounded_exp(&ue, k).retrieve())));
                    chk!(cs, "ConstMontyForm:MultiExponentiateBoundedExp [1]", &exp, Out::v(&w(&ConstMontyForm::<$ty, $n>::multi_exponentiate_bounded_exp(&[(x, ue)], k).retrieve())));
                    chk!(cs, "ConstMontyForm:MultiExponentiateBoundedExp slice[1]", &exp, Out::v(&w(&ConstMontyForm::<$ty, $n>::multi_exponentiate_bounded_exp(vec![(x, ue)].as_slice(), k).retrieve())));
                    if k == 64 * $e {
                        cs.group();
                        chk!(cs, "ConstMontyForm::pow", &exp, Out::v(&w(&x.pow(&ue).retrieve())));
                        chk!(cs, "ConstMontyForm:Pow", &exp, Out::v(&w(&Pow::pow(&x, &ue).retrieve())));
                        let p2 = (oracle(b, e, k, &m) * oracle(&bs[0], e, k, &m)) % &m;
                        let x0 = ConstMontyForm::<$ty, $n>::new(&u::<$n>(&from_big(&bs[0], $n)));
                        cs.group();
                        chk!(cs, "ConstMontyForm:MultiExponentiate [2]", &Out::v(&from_big(&p2, $n)), Out::v(&w(&ConstMontyForm::<$ty, $n>::multi_exponentiate(&[(x, ue), (x0, ue)]).retrieve())));
                    }
                }
            });
        }
    }};
}

/// lincomb_vartime: sum of a_i * b_i, any positive number of terms, moduli with 0..=63+ leading zero bits
fn fam_lincomb<const N: usize>(ctx: &Ctx) {
    let fam = "lincomb";
    if !ctx.want(fam) {
        return;
    }
    let wname = format!("Uint<{N}>");
    let b = 64 * N;
    // moduli by number of leading zero bits
    let mut ms: Vec<BigUint> = Vec::new();
    for lz in [0usize, 1, 2, 5, 31, 62, 63, 64, 65, 100] {
        if lz + 2 <= b {
            ms.push(pow2(b - lz) - 1u32);
            ms.push(pow2(b - lz - 1) + 1u32);
            ms.push(pow2(b - lz) - BigUint::from(if b - lz > 64 { MAX } else { 3 }));
            // pseudo-Mersenne moduli just below a power of two (2^k - 159, 2^k - 2^32 - 977, 2^k - 19): with operands near
            // the modulus every column of the accumulation carries
            if b - lz > 64 {
                ms.push(pow2(b - lz) - 159u32);
                ms.push(pow2(b - lz) - pow2(32) - 977u32);
                ms.push(pow2(b - lz) - 19u32);
            }
        }
    }
    ms.retain(|m| m.bit(0) && m.bits() > 1);
    ms.sort();
    ms.dedup();
    let maxterms = 40usize;
    let term_pats = 6usize; // which values fill the terms
    ctx.par_for(fam, &wname, ms.len() * maxterms * term_pats, |i, l| {
        let (mi, t, pat) = (i / (maxterms * term_pats), (i / term_pats) % maxterms + 1, i % term_pats);
        let m = &ms[mi];
        let ml = from_big(m, N);
        let bs = bases(m, N, ctx.seed);
        let pick = |j: usize, side: usize| -> BigUint {
            match pat {
                0 => (m - 1u32) % m,               // all terms maximal: accumulation overflow
                1 => bs[(j + side) % bs.len()].clone(),
                2 => if j % 2 == side { (m - 1u32) % m } else { BigUint::one() % m },
                3 => bs[bs.len() - 1].clone(),
                4 => if j == 0 { (m - 1u32) % m } else { BigUint::zero() },
                _ => bs[(j * 3 + side * 2) % bs.len()].clone(),
            }
        };
        let av: Vec<BigUint> = (0..t).map(|j| pick(j, 0)).collect();
        let bv: Vec<BigUint> = (0..t).map(|j| pick(j, 1)).collect();
        let sum = av.iter().zip(&bv).fold(BigUint::zero(), |acc, (x, y)| (acc + x * y) % m);
        let ins: [&[u64]; 1] = [&ml];
        let mut cs = Case::new(l, P, fam, &wname, &ins);
        cs.extra = Some(format!("terms={t} pattern={pat} leading_zeros={}", b as u64 - m.bits()));
        cs.l.nontrivial += (t > 1) as u64;
        let lz = (b as u64 - m.bits()).min(63);
        if (t as u128) > (1u128 << lz) {
            cs.l.class("more terms than one accumulation window holds");
        }
        let exp = Out::v(&from_big(&sum, N));
        let params = MontyParams::<N>::new_vartime(Odd::new(u::<N>(&ml)).unwrap());
        let xs: Vec<(MontyForm<N>, MontyForm<N>)> = av.iter().zip(&bv).map(|(x, y)| (MontyForm::new(&u::<N>(&from_big(x, N)), params), MontyForm::new(&u::<N>(&from_big(y, N)), params))).collect();
        let refs: Vec<(&MontyForm<N>, &MontyForm<N>)> = xs.iter().map(|(x, y)| (x, y)).collect();
        chk!(cs, "MontyForm::lincomb_vartime", &exp, Out::v(&w(&MontyForm::lincomb_vartime(&refs).retrieve())));
        chk!(cs, "MontyForm:Monty::lincomb_vartime", &exp, Out::v(&w(&<MontyForm<N> as Monty>::lincomb_vartime(&refs).retrieve())));
        chk!(cs, "sum of products (MontyForm)", &exp, Out::v(&w(&xs.iter().fold(MontyForm::zero(params), |acc, (x, y)| acc + x * y).retrieve())));

        let bparams = BoxedMontyParams::new_vartime(Odd::new(bx(&ml)).unwrap());
        let bxs: Vec<(BoxedMontyForm, BoxedMontyForm)> = av.iter().zip(&bv).map(|(x, y)| (BoxedMontyForm::new(bx(&from_big(x, N)), bparams.clone()), BoxedMontyForm::new(bx(&from_big(y, N)), bparams.clone()))).collect();
        let brefs: Vec<(&BoxedMontyForm, &BoxedMontyForm)> = bxs.iter().map(|(x, y)| (x, y)).collect();
        chk!(cs, "BoxedMontyForm::lincomb_vartime", &exp, Out::v(&bw(&BoxedMontyForm::lincomb_vartime(&brefs).retrieve())));
        chk!(cs, "BoxedMontyForm:Monty::lincomb_vartime", &exp, Out::v(&bw(&<BoxedMontyForm as Monty>::lincomb_vartime(&brefs).retrieve())));
        // the stored representatives must be canonical too (retrieve() alone reduces a too-large accumulator away);
        // these are separate statements, each in its own group - the five forms above stay ONE group (C15 pairs)
        cs.group();
        chk!(cs, "MontyForm::lincomb_vartime (representative < m)", &Out::Val(vec![1]), Out::Val(vec![(to_big(&w(MontyForm::lincomb_vartime(&refs).as_montgomery())) < *m) as u64]));
        cs.group();
        chk!(cs, "BoxedMontyForm::lincomb_vartime (representative < m)", &Out::Val(vec![1]), Out::Val(vec![(to_big(&bw(BoxedMontyForm::lincomb_vartime(&brefs).as_montgomery())) < *m) as u64]));
        // parameter sets built by the constant-time constructors and parameter sets that went through constant-time
        // selection must drive lincomb exactly like new_vartime's (the accumulation window is derived from them)
        if pat == 0 && t <= 6 {
            use crypto_bigint::subtle::{Choice, ConditionallySelectable};
            cs.group();
            let other = MontyParams::<N>::new_vartime(Odd::new(u::<N>(&from_big(&BigUint::from(3u32), N))).unwrap());
            let sel = MontyParams::conditional_select(&other, &params, Choice::from(1));
            let xs2: Vec<(MontyForm<N>, MontyForm<N>)> = av.iter().zip(&bv).map(|(x, y)| (MontyForm::new(&u::<N>(&from_big(x, N)), sel), MontyForm::new(&u::<N>(&from_big(y, N)), sel))).collect();
            let refs2: Vec<(&MontyForm<N>, &MontyForm<N>)> = xs2.iter().map(|(x, y)| (x, y)).collect();
            chk!(cs, "MontyForm::lincomb_vartime (params via conditional_select)", &exp, Out::v(&w(&MontyForm::lincomb_vartime(&refs2).retrieve())));
            cs.group();
            let bctp = BoxedMontyParams::new(Odd::new(bx(&ml)).unwrap());
            let bxs3: Vec<(BoxedMontyForm, BoxedMontyForm)> = av.iter().zip(&bv).map(|(x, y)| (BoxedMontyForm::new(bx(&from_big(x, N)), bctp.clone()), BoxedMontyForm::new(bx(&from_big(y, N)), bctp.clone()))).collect();
            let brefs3: Vec<(&BoxedMontyForm, &BoxedMontyForm)> = bxs3.iter().map(|(x, y)| (x, y)).collect();
            chk!(cs, "BoxedMontyForm::lincomb_vartime (params via BoxedMontyParams::new)", &exp, Out::v(&bw(&BoxedMontyForm::lincomb_vartime(&brefs3).retrieve())));
        }
    });
}

macro_rules! fam_lincomb_const {
    ($ctx:expr, $ty:ident, $n:literal) => {{
        let ctx: &Ctx = $ctx;
        if ctx.want("lincomb_const") {
            let wname = format!("ConstMontyForm<{}>", stringify!($ty));
            let m = to_big(&w(<$ty as ConstMontyParams<$n>>::MODULUS.as_ref()));
            let bs = bases(&m, $n, ctx.seed);
            ctx.par_for("lincomb_const", &wname, 40 * 3, |i, l| {
                let (t, pat) = (i / 3 + 1, i % 3);
                let pick = |j: usize, side: usize| -> BigUint {
                    match pat {
                        0 => (&m - 1u32) % &m,
                        1 => bs[(j + side) % bs.len()].clone(),
                        _ => bs[bs.len() - 1].clone(),
                    }
                };
                let av: Vec<BigUint> = (0..t).map(|j| pick(j, 0)).collect();
                let bv: Vec<BigUint> = (0..t).map(|j| pick(j, 1)).collect();
                let sum = av.iter().zip(&bv).fold(BigUint::zero(), |acc, (x, y)| (acc + x * y) % &m);
                let ml = from_big(&m, $n);
                let ins: [&[u64]; 1] = [&ml];
                let mut cs = Case::new(l, P, "lincomb_const", &wname, &ins);
                cs.extra = Some(format!("terms={t} pattern={pat}"));
                cs.l.nontrivial += (t > 1) as u64;
                let xs: Vec<(ConstMontyForm<$ty, $n>, ConstMontyForm<$ty, $n>)> = av.iter().zip(&bv).map(|(x, y)| (ConstMontyForm::new(&u::<$n>(&from_big(x, $n))), ConstMontyForm::new(&u::<$n>(&from_big(y, $n))))).collect();
                chk!(cs, "ConstMontyForm::lincomb_vartime", &Out::v(&from_big(&sum, $n)), Out::v(&w(&ConstMontyForm::<$ty, $n>::lincomb_vartime(&xs).retrieve())));
            });
        }
    }};
}

fn main() {
    let ctx = Ctx::from_args(P, "exploration");
    ctx.set_rule("E1: pow / pow_bounded_exp / Pow / PowBoundedExp on MontyForm, BoxedMontyForm, ConstMontyForm: moduli {1,3,5,7,9,15,251, 2^BITS-1, 2^(BITS-1)+1, ~2^BITS/3, /4, 2^BITS-(2^64-1), zero-high-limb} x bases {0,1,2,m-1,generic,m-1-generic} x \
        exponents {0, all-ones, 2^j, 2^j+-1 for every j, L5/L3 patterns, generic} x EVERY k in 0..=BITS(exponent) for exponents of <= 2 limbs (window- and limb-boundary k otherwise); exponent width != base width; \
        multi-exponentiation of 1, 2, 3 terms (arrays and slices) vs product of powers and vs the oracle; lincomb_vartime with EVERY term count 1..=40 x moduli with 0,1,2,5,31,62,63,64,65,100 leading zero bits x 6 term patterns. Oracle: BigUint::modpow. Non-trivial: k > 0, exponent != 0, base > 1.");
    ctx.assume("limb values outside the stated sets are not explored; k is exhaustive for exponents of at most two limbs");
    let ctx = &ctx;
    fam_pow::<1, 1>(ctx);
    fam_pow::<2, 2>(ctx);
    fam_pow::<1, 2>(ctx);
    fam_pow::<2, 1>(ctx);
    fam_pow::<4, 4>(ctx);
    fam_pow::<4, 1>(ctx);
    fam_pow::<2, 4>(ctx);
    fam_pow::<8, 8>(ctx);
    fam_pow::<16, 4>(ctx);
    if ctx.thorough() {
        fam_pow::<16, 16>(ctx);
        fam_pow::<4, 8>(ctx);
    }
    fam_multi::<1, 1>(ctx);
    fam_multi::<2, 1>(ctx);
    fam_multi::<4, 2>(ctx);
    fam_const!(ctx, C64A, 1, 1);
    fam_const!(ctx, C64B, 1, 2);
    fam_const!(ctx, C128A, 2, 2);
    fam_const!(ctx, C128B, 2, 1);
    fam_const!(ctx, C256A, 4, 4);
    fam_lincomb::<1>(ctx);
    fam_lincomb::<2>(ctx);
    fam_lincomb::<4>(ctx);
    fam_lincomb::<8>(ctx);
    fam_lincomb::<16>(ctx);
    fam_lincomb_const!(ctx, C64A, 1);
    fam_lincomb_const!(ctx, C64B, 1);
    fam_lincomb_const!(ctx, C128A, 2);
    fam_lincomb_const!(ctx, C256A, 4);
    let _ = Uint::<1>::ZERO;
    std::process::exit(ctx.finish());
}
