//! C16 — byte, hex, word and primitive conversions are lossless, positional and strict (engines E5 + E1).
use crypto_bigint::subtle::CtOption;
use crypto_bigint::{
    ArrayDecoding, ArrayEncoding, BoxedUint, Checked, DecodeError, Encoding, Int, Limb, NonZero, Odd, Uint, Wrapping,
    U1024, U128, U192, U2048, U256, U320, U384, U448, U512, U64,
};
use num_bigint::BigUint;
use num_traits::Zero;
use vcommon::*;

const P: &str = "C16";

macro_rules! chk {
    ($cs:expr, $name:expr, $exp:expr, $e:expr) => {
        $cs.check($name, "any", $exp, guard(|| $e))
    };
}
fn bytes_out(b: &[u8]) -> Out {
    Out::Val(b.iter().map(|&x| x as u64).collect())
}
fn str_out(s: &str) -> Out {
    bytes_out(s.as_bytes())
}

/// positional reference: big-endian byte i of an n-byte value x is floor(x / 256^(n-1-i)) mod 256
fn be_bytes(x: &BigUint, n: usize) -> Vec<u8> {
    (0..n).map(|i| ((x >> (8 * (n - 1 - i))) % 256u32).to_u64_digits().first().copied().unwrap_or(0) as u8).collect()
}

fn values(n: usize, ctx: &Ctx) -> Vec<Limbs> {
    let mut v = if n <= 2 { full(n, &l13(ctx.seed)) } else { runs(n, &l5(), 2) };
    // byte-position probe: byte i (little endian) has the value i+1 (mod 251, never 0), all distinct within 250 bytes
    let probe_bytes: Vec<u8> = (0..8 * n).map(|i| (i % 251 + 1) as u8).collect();
    v.push(probe_bytes.chunks(8).map(|c| u64::from_le_bytes(c.try_into().unwrap())).collect());
    let probe2: Vec<u8> = (0..8 * n).map(|i| (255 - i % 251) as u8).collect();
    v.push(probe2.chunks(8).map(|c| u64::from_le_bytes(c.try_into().unwrap())).collect());
    let (g1, g2) = generic_limbs(ctx.seed);
    v.push((0..n).map(|i| if i % 2 == 0 { g1 } else { g2 }.rotate_left(i as u32)).collect());
    thin(dedup(v), if ctx.thorough() { 20000 } else { 400 })
}

macro_rules! fam_alias {
    ($ctx:expr, $t:ty, $n:literal, $arr:expr) => {{
        let ctx: &Ctx = $ctx;
        let wname = format!("Uint<{}>", $n);
        let vals = values($n, ctx);
        if ctx.want("uint_bytes") {
            ctx.par_for("uint_bytes", &wname, vals.len(), |i, l| {
                let a = &vals[i];
                let ins: [&[u64]; 1] = [a];
                let mut cs = Case::new(l, P, "uint_bytes", &wname, &ins);
                let ua: $t = u::<$n>(a);
                let x = to_big(a);
                let nb = 8 * $n;
                let be = be_bytes(&x, nb);
                let le: Vec<u8> = be.iter().rev().copied().collect();
                cs.l.nontrivial += (!x.is_zero()) as u64;
                // encoders are positional
                chk!(cs, "Encoding::to_be_bytes", &bytes_out(&be), bytes_out(Encoding::to_be_bytes(&ua).as_ref()));
                chk!(cs, "inherent to_be_bytes", &bytes_out(&be), bytes_out(ua.to_be_bytes().as_ref()));
                cs.group();
                chk!(cs, "Encoding::to_le_bytes", &bytes_out(&le), bytes_out(Encoding::to_le_bytes(&ua).as_ref()));
                chk!(cs, "inherent to_le_bytes", &bytes_out(&le), bytes_out(ua.to_le_bytes().as_ref()));
                // decoders invert them
                cs.group();
                let e = Out::v(a);
                chk!(cs, "Uint::from_be_slice", &e, Out::v(&w(&<$t>::from_be_slice(&be))));
                chk!(cs, "Uint::from_le_slice", &e, Out::v(&w(&<$t>::from_le_slice(&le))));
                chk!(cs, "Encoding::from_be_bytes", &e, Out::v(&w(&<$t as Encoding>::from_be_bytes(be.as_slice().try_into().unwrap()))));
                chk!(cs, "Encoding::from_le_bytes", &e, Out::v(&w(&<$t as Encoding>::from_le_bytes(le.as_slice().try_into().unwrap()))));
                // hex: lower and upper case, both byte orders
                let hex_be: String = be.iter().map(|b| format!("{b:02x}")).collect();
                let hex_le: String = le.iter().map(|b| format!("{b:02x}")).collect();
                chk!(cs, "Uint::from_be_hex(lower)", &e, Out::v(&w(&<$t>::from_be_hex(&hex_be))));
                chk!(cs, "Uint::from_be_hex(upper)", &e, Out::v(&w(&<$t>::from_be_hex(&hex_be.to_uppercase()))));
                chk!(cs, "Uint::from_le_hex(lower)", &e, Out::v(&w(&<$t>::from_le_hex(&hex_le))));
                chk!(cs, "Uint::from_le_hex(upper)", &e, Out::v(&w(&<$t>::from_le_hex(&hex_le.to_uppercase()))));
                chk!(cs, "Int::from_be_hex", &e, Out::v(&w(Int::<$n>::from_be_hex(&hex_be).as_uint())));
                chk!(cs, "Odd/NonZero-free words: from_words(to_words)", &e, Out::v(&w(&<$t>::from_words(ua.to_words()))));
                chk!(cs, "Uint::new(to_limbs)", &e, Out::v(&w(&<$t>::new(ua.to_limbs()))));
                chk!(cs, "From<[Word;N]>", &e, Out::v(&w(&<$t>::from(<[u64; $n]>::from(ua)))));
                chk!(cs, "From<[Limb;N]>", &e, Out::v(&w(&<$t>::from(<[Limb; $n]>::from(ua)))));
                chk!(cs, "as_words", &e, Out::v(ua.as_words()));
                chk!(cs, "as_limbs", &e, Out::Val(ua.as_limbs().iter().map(|l| l.0).collect()));
                chk!(cs, "as_int().as_uint()", &e, Out::v(&w(ua.as_int().as_uint())));
                // formatting
                cs.group();
                chk!(cs, "LowerHex", &str_out(&hex_be), str_out(&format!("{:x}", ua)));
                cs.group();
                chk!(cs, "UpperHex", &str_out(&hex_be.to_uppercase()), str_out(&format!("{:X}", ua)));
                chk!(cs, "Display", &str_out(&hex_be.to_uppercase()), str_out(&format!("{}", ua)));
                cs.group();
                chk!(cs, "LowerHex#", &str_out(&format!("0x{hex_be}")), str_out(&format!("{:#x}", ua)));
                cs.group();
                let bin: String = be.iter().map(|b| format!("{b:08b}")).collect();
                chk!(cs, "Binary", &str_out(&bin), str_out(&format!("{:b}", ua)));
                cs.group();
                chk!(cs, "Debug", &str_out(&format!("Uint(0x{})", hex_be.to_uppercase())), str_out(&format!("{:?}", ua)));
                // serde: bincode round trip and the human-readable (JSON) form = lowercase hex of the LE bytes
                cs.group();
                chk!(cs, "serde bincode roundtrip", &e, {
                    let ser = bincode::serialize(&ua).unwrap();
                    Out::v(&w(&bincode::deserialize::<$t>(&ser).unwrap()))
                });
                // the binary decoder is strict about the size: a payload that is one byte short, or the encoding of a
                // narrower integer (U64), must be refused, not zero-extended
                cs.group();
                chk!(cs, "serde bincode (truncated payload rejected)", &Out::Val(vec![1]), {
                    let ser = bincode::serialize(&ua).unwrap();
                    Out::Val(vec![bincode::deserialize::<$t>(&ser[..ser.len() - 1]).is_err() as u64])
                });
                if $n > 1 {
                    cs.group();
                    chk!(cs, "serde bincode (narrower integer's payload rejected)", &Out::Val(vec![1]), {
                        let ser = bincode::serialize(&U64::from_u64(0x0102_0304_0506_0708)).unwrap();
                        Out::Val(vec![bincode::deserialize::<$t>(&ser).is_err() as u64])
                    });
                }
                cs.group();
                chk!(cs, "serde json roundtrip", &e, {
                    let ser = serde_json::to_string(&ua).unwrap();
                    Out::v(&w(&serde_json::from_str::<$t>(&ser).unwrap()))
                });
                chk!(cs, "serde bincode roundtrip Wrapping", &e, {
                    let ser = bincode::serialize(&Wrapping(ua)).unwrap();
                    Out::v(&w(&bincode::deserialize::<Wrapping<$t>>(&ser).unwrap().0))
                });
                chk!(cs, "serde bincode roundtrip Checked", &e, {
                    let ser = bincode::serialize(&Checked::new(ua)).unwrap();
                    let d: Checked<$t> = bincode::deserialize(&ser).unwrap();
                    Out::v(&w(&Option::<$t>::from(d.0).unwrap()))
                });
                cs.group();
                chk!(cs, "serde json = lowercase hex of LE bytes", &str_out(&format!("\"{hex_le}\"")), str_out(&serde_json::to_string(&ua).unwrap()));
                if !x.is_zero() {
                    cs.group();
                    chk!(cs, "serde bincode roundtrip NonZero", &e, {
                        let ser = bincode::serialize(&NonZero::new(ua).unwrap()).unwrap();
                        Out::v(&w(bincode::deserialize::<NonZero<$t>>(&ser).unwrap().as_ref()))
                    });
                }
                if a[0] & 1 == 1 {
                    cs.group();
                    chk!(cs, "serde bincode roundtrip Odd", &e, {
                        let ser = bincode::serialize(&Odd::new(ua).unwrap()).unwrap();
                        Out::v(&w(bincode::deserialize::<Odd<$t>>(&ser).unwrap().as_ref()))
                    });
                }
                if $arr {
                    array_forms(&mut cs, &ua, a, &be, &le);
                }
            });
        }
    }};
}

trait MaybeArray<const N: usize> {
    fn run(cs: &mut Case, ua: &Uint<N>, a: &Limbs, be: &[u8], le: &[u8]);
}
macro_rules! impl_arr {
    ($($n:literal),*) => {$(
        impl MaybeArray<$n> for () {
            fn run(cs: &mut Case, ua: &Uint<$n>, a: &Limbs, be: &[u8], le: &[u8]) {
                cs.group();
                chk!(cs, "ArrayEncoding::to_be_byte_array", &bytes_out(be), bytes_out(ua.to_be_byte_array().as_slice()));
                cs.group();
                chk!(cs, "ArrayEncoding::to_le_byte_array", &bytes_out(le), bytes_out(ua.to_le_byte_array().as_slice()));
                cs.group();
                let e = Out::v(a);
                chk!(cs, "ArrayEncoding::from_be_byte_array", &e, Out::v(&w(&Uint::<$n>::from_be_byte_array(ua.to_be_byte_array()))));
                chk!(cs, "ArrayEncoding::from_le_byte_array", &e, Out::v(&w(&Uint::<$n>::from_le_byte_array(ua.to_le_byte_array()))));
                chk!(cs, "ArrayDecoding::into_uint_be", &e, Out::v(&w(&ua.to_be_byte_array().into_uint_be())));
                chk!(cs, "ArrayDecoding::into_uint_le", &e, Out::v(&w(&ua.to_le_byte_array().into_uint_le())));
                if !is_zero(a) {
                    chk!(cs, "NonZero::from_be_byte_array", &e, Out::v(&w(Option::<NonZero<Uint<$n>>>::from(NonZero::<Uint<$n>>::from_be_byte_array(ua.to_be_byte_array())).unwrap().as_ref())));
                    chk!(cs, "NonZero::from_le_byte_array", &e, Out::v(&w(Option::<NonZero<Uint<$n>>>::from(NonZero::<Uint<$n>>::from_le_byte_array(ua.to_le_byte_array())).unwrap().as_ref())));
                    chk!(cs, "NonZero::from_be_bytes", &e, Out::v(&w(Option::<NonZero<Uint<$n>>>::from(NonZero::<Uint<$n>>::from_be_bytes(Encoding::to_be_bytes(ua))).unwrap().as_ref())));
                    chk!(cs, "NonZero::from_le_bytes", &e, Out::v(&w(Option::<NonZero<Uint<$n>>>::from(NonZero::<Uint<$n>>::from_le_bytes(Encoding::to_le_bytes(ua))).unwrap().as_ref())));
                }
            }
        }
    )*};
}
impl_arr!(1, 2, 3, 4, 6, 7, 8, 16, 32);
fn array_forms<const N: usize>(cs: &mut Case, ua: &Uint<N>, a: &Limbs, be: &[u8], le: &[u8])
where
    (): MaybeArray<N>,
{
    <() as MaybeArray<N>>::run(cs, ua, a, be, le)
}
// widths without ArrayEncoding get a no-op
struct NoArr;
#[allow(dead_code)]
impl NoArr {
    fn run() {}
}

/// hex decoders: every byte value at every nibble position; all 2-character strings at one position
/// every string obtained from a valid hex numeral of Uint<N> by overwriting `wlen` consecutive characters at `offset`
/// with ALL byte combinations: accepted (and decoded positionally, both byte orders) iff every character is a hex digit
fn hex_windows<const N: usize>(ctx: &Ctx, wlen: usize, offsets: Vec<usize>)
where
    Uint<N>: Encoding,
{
    let is_hex = |b: u8| b.is_ascii_hexdigit();
    let hexval = |b: u8| (b as char).to_digit(16).unwrap() as u64;
    let base: Vec<u8> = "0123456789abcdeffedcba9876543210".bytes().cycle().take(16 * N).collect();
    let per = 256usize.pow(wlen as u32);
    let wname = format!("Uint<{N}> all {wlen}-char windows at {} offsets", offsets.len());
    ctx.par_for("hex_decode", &wname, offsets.len() * per, |i, l| {
        let (off, mut code) = (offsets[i / per], i % per);
        let mut s = base.clone();
        for k in 0..wlen {
            s[off + k] = (code % 256) as u8;
            code /= 256;
        }
        let ins: [&[u64]; 1] = [&[off as u64, (i % per) as u64]];
        let mut cs = Case::new(l, P, "hex_decode", &wname, &ins);
        let Ok(st) = String::from_utf8(s.clone()) else {
            return;
        };
        cs.l.nontrivial += 1;
        let valid = s.iter().all(|&b| is_hex(b));
        let bytes: Vec<u8> = s.chunks(2).map(|p| if valid { ((hexval(p[0]) << 4) | hexval(p[1])) as u8 } else { 0 }).collect();
        let mut be = vec![0u64; N];
        let mut le = vec![0u64; N];
        for (k, &b) in bytes.iter().enumerate() {
            let kb = bytes.len() - 1 - k; // big endian: first byte is the most significant
            be[kb / 8] |= (b as u64) << (8 * (kb % 8));
            le[k / 8] |= (b as u64) << (8 * (k % 8));
        }
        let e = if valid { Out::v(&be) } else { Out::Panic };
        chk!(cs, "Uint::from_be_hex", &e, Out::v(&w(&Uint::<N>::from_be_hex(&st))));
        cs.group();
        let el = if valid { Out::v(&le) } else { Out::Panic };
        chk!(cs, "Uint::from_le_hex", &el, Out::v(&w(&Uint::<N>::from_le_hex(&st))));
        cs.group();
        chk!(cs, "Boxed::from_be_hex", &(if valid { Out::v(&be) } else { Out::None }), match Option::<BoxedUint>::from(BoxedUint::from_be_hex(&st, 64 * N as u32)) {
            Some(x) => Out::v(&bw(&x)),
            None => Out::None,
        });
    });
}

fn fam_hex(ctx: &Ctx) {
    if !ctx.want("hex_decode") {
        return;
    }
    let base = "0123456789abcdeffedcba9876543210"; // U128
    let is_hex = |b: u8| b.is_ascii_hexdigit();
    let hexval = |b: u8| (b as char).to_digit(16).unwrap() as u128;
    let npos = 32;
    ctx.par_for("hex_decode", "U128 one byte at every position", npos * 256, |i, l| {
        let (pos, byte) = (i / 256, (i % 256) as u8);
        let mut s = base.as_bytes().to_vec();
        s[pos] = byte;
        let ins: [&[u64]; 1] = [&[pos as u64, byte as u64]];
        let mut cs = Case::new(l, P, "hex_decode", "U128", &ins);
        cs.l.nontrivial += 1;
        let Ok(st) = String::from_utf8(s.clone()) else {
            // not valid UTF-8: cannot be passed as &str at all
            cs.l.class("non-UTF8 byte (not expressible as &str)");
            return;
        };
        let valid = is_hex(byte);
        if !valid {
            cs.l.class("invalid hex character");
        }
        let val = |order_be: bool| -> Limbs {
            let mut x: u128 = 0;
            if order_be {
                for &c in &s {
                    x = (x << 4) | hexval(c);
                }
            } else {
                // little endian: byte k of the string pair is byte k of the value
                for (k, pair) in s.chunks(2).enumerate() {
                    let b = (hexval(pair[0]) << 4) | hexval(pair[1]);
                    x |= b << (8 * k);
                }
            }
            vec![x as u64, (x >> 64) as u64]
        };
        let eb = if valid { Out::v(&val(true)) } else { Out::Panic };
        let el = if valid { Out::v(&val(false)) } else { Out::Panic };
        chk!(cs, "U128::from_be_hex", &eb, Out::v(&w(&U128::from_be_hex(&st))));
        chk!(cs, "I128::from_be_hex", &eb, Out::v(&w(Int::<2>::from_be_hex(&st).as_uint())));
        cs.group();
        chk!(cs, "Boxed::from_be_hex", &(if valid { Out::v(&val(true)) } else { Out::None }), match Option::<BoxedUint>::from(BoxedUint::from_be_hex(&st, 128)) {
            Some(x) => Out::v(&bw(&x)),
            None => Out::None,
        });
        cs.group();
        chk!(cs, "U128::from_le_hex", &el, Out::v(&w(&U128::from_le_hex(&st))));
        if byte & 1 == 1 || !valid || true {
            // Odd / NonZero hex constructors (stated byte order), when the resulting value qualifies
            if valid {
                let vb = val(true);
                let vl = val(false);
                if vb[0] & 1 == 1 {
                    cs.group();
                    chk!(cs, "Odd::<U128>::from_be_hex", &Out::v(&vb), Out::v(&w(Odd::<U128>::from_be_hex(&st).as_ref())));
                }
                if vl[0] & 1 == 1 {
                    cs.group();
                    chk!(cs, "Odd::<U128>::from_le_hex", &Out::v(&vl), Out::v(&w(Odd::<U128>::from_le_hex(&st).as_ref())));
                }
            }
        }
    });
    // all two-character windows: quick = the first byte position of a U64; thorough = EVERY character offset (also the
    // odd ones, which straddle two bytes) of a U64 and of a U128, plus all three-character windows at offsets 0 and 13
    hex_windows::<1>(ctx, 2, if ctx.thorough() { (0..15).collect() } else { vec![0] });
    if ctx.thorough() {
        hex_windows::<2>(ctx, 2, (0..31).collect());
        hex_windows::<1>(ctx, 3, vec![0, 13]);
    }
    // wrong lengths panic (documented: "not zero-padded accordingly for the size")
    ctx.seq("hex_decode", "lengths", |l| {
        for len in 0..=40usize {
            let s: String = "a".repeat(len);
            let ins: [&[u64]; 1] = [&[len as u64]];
            let mut cs = Case::new(l, P, "hex_decode", "U128 length", &ins);
            let e = if len == 32 { Out::v(&[0xaaaa_aaaa_aaaa_aaaa, 0xaaaa_aaaa_aaaa_aaaa]) } else { Out::Panic };
            chk!(cs, "U128::from_be_hex(len)", &e, Out::v(&w(&U128::from_be_hex(&s))));
            chk!(cs, "U128::from_le_hex(len)", &e, Out::v(&w(&U128::from_le_hex(&s))));
        }
        // BoxedUint::from_be_hex: exactly precision/4 characters are accepted; any other length is rejected (panic or none,
        // both count as rejection - only a decoded value for a wrong length is a failure), also with a trailing non-hex byte
        for prec in [64u32, 128, 192] {
            let want = (prec / 4) as usize;
            for len in 0..=want + 9 {
                for tail in ["a", "g", "/"] {
                    let mut st: String = "a".repeat(len.saturating_sub(1));
                    if len > 0 {
                        st.push_str(tail);
                    }
                    let ins: [&[u64]; 1] = [&[prec as u64, len as u64]];
                    let mut cs = Case::new(l, P, "hex_decode", "Boxed::from_be_hex length", &ins);
                    cs.extra = Some(format!("string={st:?}"));
                    let got = guard(|| match Option::<BoxedUint>::from(BoxedUint::from_be_hex(&st, prec)) {
                        Some(x) => Out::v(&bw(&x)),
                        None => Out::None,
                    });
                    let well_formed = len == want && tail == "a";
                    let exp = if well_formed { Out::v(&vec![0xaaaa_aaaa_aaaa_aaaau64; (prec / 64) as usize]) } else { Out::None };
                    // normalise a rejecting panic to `none`
                    let got = match got {
                        Err(_) if !well_formed => Ok(Out::None),
                        g => g,
                    };
                    cs.check("Boxed::from_be_hex(len)", if well_formed { "well_formed" } else { "wrong_length_or_digit" }, &exp, got);
                }
            }
        }
    });
}

fn derr(e: DecodeError) -> Out {
    Out::Val(vec![match e {
        DecodeError::Empty => 1001,
        DecodeError::InvalidDigit => 1002,
        DecodeError::InputSize => 1003,
        DecodeError::Precision => 1004,
        #[allow(unreachable_patterns)]
        _ => 1999,
    }])
}

/// BoxedUint::from_be/le_slice: every precision x every length x content patterns
fn fam_boxed_slices(ctx: &Ctx) {
    if !ctx.want("boxed_slices") {
        return;
    }
    let maxp = if ctx.thorough() { 2100usize } else { 520 };
    let jobs: Vec<(usize, usize)> = (0..=maxp).flat_map(|p| (0..=p / 8 + 9).map(move |len| (p, len))).collect();
    ctx.par_for("boxed_slices", "precision 0..=520 (2100 thorough) x length 0..=p/8+9", jobs.len(), |i, l| {
        let (prec, len) = jobs[i];
        // content patterns (as big-endian byte strings of `len` bytes)
        let mut pats: Vec<Vec<u8>> = vec![vec![0u8; len], vec![0xffu8; len]];
        if len > 0 {
            let probe: Vec<u8> = (0..len).map(|k| (k % 251 + 1) as u8).collect();
            pats.push(probe);
            // value exactly 2^prec and 2^prec - 1 (if expressible in len bytes)
            for v in [pow2(prec), pow2(prec) - 1u32, pow2(prec.saturating_sub(1))] {
                if v.bits() as usize <= 8 * len {
                    pats.push(be_bytes(&v, len));
                }
            }
            let mut one = vec![0u8; len];
            one[len - 1] = 1;
            pats.push(one);
            let mut top = vec![0u8; len];
            top[0] = 0x80;
            pats.push(top);
        }
        for be in pats {
            let ins: [&[u64]; 1] = [&[prec as u64, len as u64]];
            let mut cs = Case::new(l, P, "boxed_slices", "Boxed", &ins);
            cs.extra = Some(format!("be_bytes={}", be.iter().map(|b| format!("{b:02x}")).collect::<String>()));
            let x = BigUint::from_bytes_be(&be);
            let nl = prec.div_ceil(64).max(1);
            cs.l.nontrivial += (len > 0) as u64;
            // documented order: InputSize iff longer than ceil(precision/8) bytes, then Precision iff value needs more bits
            let exp = if len == 0 && prec == 0 {
                Out::v(&[0])
            } else if len > prec.div_ceil(8) {
                cs.l.class("InputSize");
                derr(DecodeError::InputSize)
            } else if x.bits() as usize > prec {
                cs.l.class("Precision");
                derr(DecodeError::Precision)
            } else {
                Out::v(&from_big(&x, nl))
            };
            chk!(cs, "Boxed::from_be_slice", &exp, match BoxedUint::from_be_slice(&be, prec as u32) {
                Ok(v) => Out::v(&bw(&v)),
                Err(e) => derr(e),
            });
            let le: Vec<u8> = be.iter().rev().copied().collect();
            cs.group();
            chk!(cs, "Boxed::from_le_slice", &exp, match BoxedUint::from_le_slice(&le, prec as u32) {
                Ok(v) => Out::v(&bw(&v)),
                Err(e) => derr(e),
            });
            // re-encode accepted values: positional, documented precision
            if let Out::Val(limbs) = &exp {
                if limbs.len() == nl && limbs[0] < 1000 || limbs.len() > 1 || true {
                    if let Ok(v) = BoxedUint::from_be_slice(&be, prec as u32) {
                        cs.group();
                        let full_be = be_bytes(&x, 8 * v.nlimbs());
                        chk!(cs, "Boxed::to_be_bytes", &bytes_out(&full_be), bytes_out(&v.to_be_bytes()));
                        cs.group();
                        let full_le: Vec<u8> = full_be.iter().rev().copied().collect();
                        chk!(cs, "Boxed::to_le_bytes", &bytes_out(&full_le), bytes_out(&v.to_le_bytes()));
                        cs.group();
                        chk!(cs, "Boxed bits_precision", &Out::Val(vec![64 * nl as u64]), Out::Val(vec![v.bits_precision() as u64]));
                    }
                }
            }
        }
    });
}

/// primitives, concat/split, resize, widen/shorten
fn fam_convert(ctx: &Ctx) {
    if !ctx.want("convert") {
        return;
    }
    let mut ps: Vec<u128> = vec![0, 1, 2, u128::MAX, u128::MAX - 1, u64::MAX as u128, u64::MAX as u128 + 1, 1 << 64, 3 << 64, 1 << 100, 1 << 127, (u64::MAX as u128) << 64];
    for j in 0..128 {
        ps.push(1u128 << j);
        ps.push((1u128 << j) - 1);
    }
    ps.push(0x0102_0304_0506_0708_090a_0b0c_0d0e_0f10);
    ps.sort();
    ps.dedup();
    ctx.par_for("convert", "primitives", ps.len(), |i, l| {
        let p = ps[i];
        let pl = [p as u64, (p >> 64) as u64];
        let ins: [&[u64]; 1] = [&pl];
        let mut cs = Case::new(l, P, "convert", "u8..u128", &ins);
        cs.l.nontrivial += (p > u64::MAX as u128) as u64;
        macro_rules! from_prim {
            ($n:literal) => {{
                let ex = |v: u128| {
                    let mut o = vec![0u64; $n];
                    o[0] = v as u64;
                    if $n > 1 {
                        o[1] = (v >> 64) as u64;
                    }
                    Out::v(&o)
                };
                cs.group();
                chk!(cs, concat!("Uint<", $n, ">::from_u8"), &ex(p as u8 as u128), Out::v(&w(&Uint::<$n>::from_u8(p as u8))));
                chk!(cs, concat!("Uint<", $n, ">:From<u8>"), &ex(p as u8 as u128), Out::v(&w(&Uint::<$n>::from(p as u8))));
                cs.group();
                chk!(cs, concat!("Uint<", $n, ">::from_u16"), &ex(p as u16 as u128), Out::v(&w(&Uint::<$n>::from_u16(p as u16))));
                chk!(cs, concat!("Uint<", $n, ">:From<u16>"), &ex(p as u16 as u128), Out::v(&w(&Uint::<$n>::from(p as u16))));
                cs.group();
                chk!(cs, concat!("Uint<", $n, ">::from_u32"), &ex(p as u32 as u128), Out::v(&w(&Uint::<$n>::from_u32(p as u32))));
                chk!(cs, concat!("Uint<", $n, ">:From<u32>"), &ex(p as u32 as u128), Out::v(&w(&Uint::<$n>::from(p as u32))));
                cs.group();
                chk!(cs, concat!("Uint<", $n, ">::from_u64"), &ex(p as u64 as u128), Out::v(&w(&Uint::<$n>::from_u64(p as u64))));
                chk!(cs, concat!("Uint<", $n, ">:From<u64>"), &ex(p as u64 as u128), Out::v(&w(&Uint::<$n>::from(p as u64))));
                chk!(cs, concat!("Uint<", $n, ">::from_word"), &ex(p as u64 as u128), Out::v(&w(&Uint::<$n>::from_word(p as u64))));
                chk!(cs, concat!("Uint<", $n, ">:From<Limb>"), &ex(p as u64 as u128), Out::v(&w(&Uint::<$n>::from(Limb(p as u64)))));
            }};
        }
        macro_rules! from_128 {
            ($n:literal) => {{
                cs.group();
                let mut o = vec![0u64; $n];
                o[0] = p as u64;
                o[1] = (p >> 64) as u64;
                chk!(cs, concat!("Uint<", $n, ">::from_u128"), &Out::v(&o), Out::v(&w(&Uint::<$n>::from_u128(p))));
                chk!(cs, concat!("Uint<", $n, ">:From<u128>"), &Out::v(&o), Out::v(&w(&Uint::<$n>::from(p))));
                chk!(cs, concat!("Uint<", $n, ">::from_wide_word"), &Out::v(&o), Out::v(&w(&Uint::<$n>::from_wide_word(p))));
            }};
        }
        from_prim!(1);
        from_prim!(2);
        from_prim!(3);
        from_prim!(4);
        from_prim!(8);
        from_128!(2);
        from_128!(3);
        from_128!(4);
        from_128!(8);
        cs.group();
        chk!(cs, "u64:From<U64>", &Out::Val(vec![p as u64]), Out::Val(vec![u64::from(U64::from_u64(p as u64))]));
        cs.group();
        chk!(cs, "u128:From<U128>", &Out::v(&pl), {
            let r = u128::from(U128::from_u128(p));
            Out::Val(vec![r as u64, (r >> 64) as u64])
        });
        // signed primitives: sign extension into every width (two's complement limbs)
        {
            let sp = p as i128;
            let se = |v: i128, n: usize| -> Out {
                let mut o = vec![if v < 0 { u64::MAX } else { 0 }; n];
                o[0] = v as u64;
                if n > 1 {
                    o[1] = (v >> 64) as u64;
                }
                Out::v(&o)
            };
            macro_rules! from_signed {
                ($n:literal) => {{
                    cs.group();
                    chk!(cs, concat!("Int<", $n, ">::from_i8"), &se(sp as i8 as i128, $n), Out::v(&w(Int::<$n>::from_i8(sp as i8).as_uint())));
                    chk!(cs, concat!("Int<", $n, ">:From<i8>"), &se(sp as i8 as i128, $n), Out::v(&w(Int::<$n>::from(sp as i8).as_uint())));
                    cs.group();
                    chk!(cs, concat!("Int<", $n, ">::from_i16"), &se(sp as i16 as i128, $n), Out::v(&w(Int::<$n>::from_i16(sp as i16).as_uint())));
                    chk!(cs, concat!("Int<", $n, ">:From<i16>"), &se(sp as i16 as i128, $n), Out::v(&w(Int::<$n>::from(sp as i16).as_uint())));
                    cs.group();
                    chk!(cs, concat!("Int<", $n, ">::from_i32"), &se(sp as i32 as i128, $n), Out::v(&w(Int::<$n>::from_i32(sp as i32).as_uint())));
                    chk!(cs, concat!("Int<", $n, ">:From<i32>"), &se(sp as i32 as i128, $n), Out::v(&w(Int::<$n>::from(sp as i32).as_uint())));
                    cs.group();
                    chk!(cs, concat!("Int<", $n, ">::from_i64"), &se(sp as i64 as i128, $n), Out::v(&w(Int::<$n>::from_i64(sp as i64).as_uint())));
                    chk!(cs, concat!("Int<", $n, ">:From<i64>"), &se(sp as i64 as i128, $n), Out::v(&w(Int::<$n>::from(sp as i64).as_uint())));
                }};
            }
            macro_rules! from_s128 {
                ($n:literal) => {{
                    cs.group();
                    chk!(cs, concat!("Int<", $n, ">::from_i128"), &se(sp, $n), Out::v(&w(Int::<$n>::from_i128(sp).as_uint())));
                    chk!(cs, concat!("Int<", $n, ">:From<i128>"), &se(sp, $n), Out::v(&w(Int::<$n>::from(sp).as_uint())));
                }};
            }
            from_signed!(1);
            from_signed!(2);
            from_signed!(3);
            from_signed!(4);
            from_signed!(8);
            from_s128!(2);
            from_s128!(3);
            from_s128!(4);
            from_s128!(8);
            from_s128!(16);
        }
        // boxed from primitives
        cs.group();
        chk!(cs, "Boxed:From<u8>", &Out::Val(vec![p as u8 as u64]), Out::v(&bw(&BoxedUint::from(p as u8))));
        cs.group();
        chk!(cs, "Boxed:From<u16>", &Out::Val(vec![p as u16 as u64]), Out::v(&bw(&BoxedUint::from(p as u16))));
        cs.group();
        chk!(cs, "Boxed:From<u32>", &Out::Val(vec![p as u32 as u64]), Out::v(&bw(&BoxedUint::from(p as u32))));
        cs.group();
        chk!(cs, "Boxed:From<u64>", &Out::Val(vec![p as u64]), Out::v(&bw(&BoxedUint::from(p as u64))));
        cs.group();
        chk!(cs, "Boxed:From<u128>", &Out::v(&pl), Out::v(&bw(&BoxedUint::from(p))));
        cs.group();
        chk!(cs, "Boxed:From<Limb>", &Out::Val(vec![p as u64]), Out::v(&bw(&BoxedUint::from(Limb(p as u64)))));
    });
    // concat / split / resize on limb patterns
    let vals = values(4, ctx);
    ctx.par_for("convert", "concat/split/resize", vals.len(), |i, l| {
        let a = &vals[i];
        let ins: [&[u64]; 1] = [a];
        let mut cs = Case::new(l, P, "convert", "Uint<4>", &ins);
        cs.l.nontrivial += (!is_zero(a)) as u64;
        let ua = u::<4>(a);
        let (lo, hi) = (u::<2>(&a[..2]), u::<2>(&a[2..]));
        let e = Out::v(a);
        chk!(cs, "Uint::concat", &e, Out::v(&w(&lo.concat(&hi))));
        chk!(cs, "Uint::concat_mixed(2,2)", &e, Out::v(&w(&Uint::concat_mixed(&lo, &hi))));
        chk!(cs, "Uint::concat_mixed(1,3)", &e, Out::v(&w(&Uint::<1>::concat_mixed::<3, 4>(&u::<1>(&a[..1]), &u::<3>(&a[1..])))));
        chk!(cs, "Uint::concat_mixed(3,1)", &e, Out::v(&w(&Uint::<3>::concat_mixed::<1, 4>(&u::<3>(&a[..3]), &u::<1>(&a[3..])))));
        chk!(cs, "From<(Uint<2>,Uint<2>)>", &e, Out::v(&w(&Uint::<4>::from((lo, hi)))));
        chk!(cs, "ConcatMixed trait", &e, Out::v(&w(&crypto_bigint::ConcatMixed::concat_mixed(&lo, &hi))));
        chk!(cs, "Concat trait", &e, Out::v(&w(&crypto_bigint::Concat::concat(&lo, &hi))));
        cs.group();
        chk!(cs, "Uint::split", &e, {
            let (x, y): (Uint<2>, Uint<2>) = ua.split();
            let mut v = w(&x);
            v.extend(w(&y));
            Out::Val(v)
        });
        chk!(cs, "Uint::split_mixed(1,3)", &e, {
            let (x, y): (Uint<1>, Uint<3>) = ua.split_mixed();
            let mut v = w(&x);
            v.extend(w(&y));
            Out::Val(v)
        });
        chk!(cs, "Uint::split_mixed(3,1)", &e, {
            let (x, y): (Uint<3>, Uint<1>) = ua.split_mixed();
            let mut v = w(&x);
            v.extend(w(&y));
            Out::Val(v)
        });
        chk!(cs, "Split trait", &e, {
            let (x, y) = crypto_bigint::Split::split(&ua);
            let mut v = w(&x);
            v.extend(w(&y));
            Out::Val(v)
        });
        chk!(cs, "From<Uint<4>> for (Uint<2>,Uint<2>)", &e, {
            let (x, y): (Uint<2>, Uint<2>) = ua.into();
            let mut v = w(&x);
            v.extend(w(&y));
            Out::Val(v)
        });
        // resize: zero-extend / truncate
        macro_rules! rs {
            ($t:literal) => {{
                cs.group();
                let e = Out::v(&resize(a, $t));
                chk!(cs, concat!("Uint::resize<", $t, ">"), &e, Out::v(&w(&ua.resize::<$t>())));
                chk!(cs, concat!("From<&Uint<4>> for Uint<", $t, ">"), &e, Out::v(&w(&Uint::<$t>::from(&ua))));
                // the signed twin: widening sign-extends, narrowing truncates (two's complement)
                cs.group();
                let mut se = resize(a, $t);
                if $t > 4 && a[3] >> 63 == 1 {
                    for k in 4..$t {
                        se[k] = u64::MAX;
                    }
                }
                chk!(cs, concat!("Int<4>::resize<", $t, ">"), &Out::v(&se), Out::v(&w(ua.as_int().resize::<$t>().as_uint())));
                chk!(cs, concat!("From<&Int<4>> for Int<", $t, ">"), &Out::v(&se), Out::v(&w(Int::<$t>::from(&ua.as_int()).as_uint())));
            }};
        }
        rs!(1);
        rs!(2);
        rs!(3);
        rs!(4);
        rs!(5);
        rs!(9);
        // boxed widen / shorten / conversions
        let xa = bx(a);
        for prec in [1u32, 64, 65, 128, 192, 255, 256] {
            cs.group();
            let nl = (prec as usize).div_ceil(64);
            cs.extra = Some(format!("precision={prec}"));
            // shorten truncates to ceil(precision/64) limbs; widen zero-extends; each panics in the other direction
            chk!(cs, "Boxed::shorten", &Out::v(&resize(a, nl)), Out::v(&bw(&xa.shorten(prec))));
        }
        for prec in [256u32, 257, 320, 512] {
            cs.group();
            let nl = (prec as usize).div_ceil(64);
            cs.extra = Some(format!("precision={prec}"));
            chk!(cs, "Boxed::widen", &Out::v(&resize(a, nl)), Out::v(&bw(&xa.widen(prec))));
        }
        cs.extra = None;
        cs.group();
        chk!(cs, "Boxed:From<Uint<4>>", &e, Out::v(&bw(&BoxedUint::from(ua))));
        chk!(cs, "Boxed:From<&Uint<4>>", &e, Out::v(&bw(&BoxedUint::from(&ua))));
        chk!(cs, "Boxed::from_words", &e, Out::v(&bw(&BoxedUint::from_words(a.iter().copied()))));
        chk!(cs, "Boxed:From<Vec<Word>>", &e, Out::v(&bw(&BoxedUint::from(a.clone()))));
        chk!(cs, "Boxed:From<Vec<Limb>>", &e, Out::v(&bw(&BoxedUint::from(a.iter().map(|&x| Limb(x)).collect::<Vec<_>>()))));
        chk!(cs, "Boxed:From<&[Limb]>", &e, Out::v(&bw(&BoxedUint::from(&a.iter().map(|&x| Limb(x)).collect::<Vec<_>>()[..]))));
        chk!(cs, "Boxed::to_words", &e, Out::v(&xa.to_words()));
        chk!(cs, "Boxed::to_limbs", &e, Out::Val(xa.to_limbs().iter().map(|l| l.0).collect()));
        chk!(cs, "Boxed::into_limbs", &e, Out::Val(xa.clone().into_limbs().iter().map(|l| l.0).collect()));
        // Limb encoding
        cs.group();
        let lb = Limb(a[0]);
        chk!(cs, "Limb:Encoding be", &bytes_out(&a[0].to_be_bytes()), bytes_out(&Encoding::to_be_bytes(&lb)));
        cs.group();
        chk!(cs, "Limb:Encoding le", &bytes_out(&a[0].to_le_bytes()), bytes_out(&Encoding::to_le_bytes(&lb)));
        cs.group();
        chk!(cs, "Limb:Encoding from_be(to_be)", &Out::Val(vec![a[0]]), Out::Val(vec![Limb::from_be_bytes(Encoding::to_be_bytes(&lb)).0, ]));
        chk!(cs, "Limb:Encoding from_le(to_le)", &Out::Val(vec![a[0]]), Out::Val(vec![Limb::from_le_bytes(Encoding::to_le_bytes(&lb)).0]));
        chk!(cs, "Limb serde bincode", &Out::Val(vec![a[0]]), Out::Val(vec![bincode::deserialize::<Limb>(&bincode::serialize(&lb).unwrap()).unwrap().0]));
    });
}

fn main() {
    let ctx = Ctx::from_args(P, "exploration");
    ctx.section_cap.store(40_000_000, std::sync::atomic::Ordering::Relaxed); // decoding a short string costs well under a microsecond
    ctx.set_rule("E5+E1: values FULL(n<=2,L13) / RUNS(n,L5,2) + byte-position probes (byte i = i+1) through every encoder/decoder/format/serde route with a positional reference; \
        hex decoders: ALL 256 byte values at every one of 32 nibble positions of a U128 string and ALL 65536 two-character prefixes of a U64 string, all lengths 0..=40; \
        BoxedUint::from_be/le_slice: EVERY precision 0..=520 x EVERY length 0..=precision/8+9 x content patterns (zeros, ones, probe, 2^precision, 2^precision-1, 2^(precision-1), 1, 0x80..); primitives 2^j, 2^j-1 for all j; concat/split/resize/widen/shorten. \
        Non-trivial: non-zero value / non-empty input.");
    ctx.assume("limb values outside the stated sets are not explored; byte values per hex position and (precision, length) pairs ARE exhaustive");
    ctx.assume("strings that are not valid UTF-8 cannot be passed to the &str hex decoders and are counted, not driven");
    let ctx = &ctx;
    fam_alias!(ctx, U64, 1, true);
    fam_alias!(ctx, U128, 2, true);
    fam_alias!(ctx, U192, 3, true);
    fam_alias!(ctx, U256, 4, true);
    fam_alias!(ctx, U384, 6, true);
    fam_alias!(ctx, U448, 7, true);
    fam_alias!(ctx, U512, 8, true);
    fam_alias!(ctx, U1024, 16, true);
    fam_alias!(ctx, U2048, 32, true);
    let _ = (U320::ZERO, CtOption::new(0u8, 1.into()));
    fam_hex(ctx);
    fam_boxed_slices(ctx);
    fam_convert(ctx);
    std::process::exit(ctx.finish());
}
