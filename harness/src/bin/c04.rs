//! C04 — addition, subtraction, negation: exact result and exact carry/overflow report (engine E1 + short E2).
use crypto_bigint::subtle::{ConditionallySelectable, CtOption};
use crypto_bigint::{
    BoxedUint, Checked, CheckedAdd, CheckedMul, CheckedSub, ConstChoice, Limb, Uint, Wrapping, WrappingAdd,
    WrappingMul, WrappingNeg, WrappingSub,
};
use num_bigint::BigUint;
use num_traits::{One, Zero};
use vcommon::*;

const P: &str = "C04";

fn lo(x: u128) -> u64 {
    x as u64
}
fn hi(x: u128) -> u64 {
    (x >> 64) as u64
}

fn limb_opt(o: CtOption<Limb>) -> Out {
    match Option::<Limb>::from(o) {
        Some(l) => Out::Val(vec![l.0]),
        None => Out::None,
    }
}

/// Word-level primitives over L13 in every argument, against u128 arithmetic.
fn fam_limb(ctx: &Ctx) {
    if !ctx.want("limb_prims") {
        return;
    }
    let al = l13(ctx.seed);
    let k = al.len();
    // (a, b, c, d) : the complete product L13^4
    ctx.par_for("limb_prims", "Limb", k * k * k * k, |i, l| {
        let (a, b, c, d) = (al[i % k], al[(i / k) % k], al[(i / k / k) % k], al[i / k / k / k]);
        let ins: [&[u64]; 4] = [&[a], &[b], &[c], &[d]];
        let mut cs = Case::new(l, P, "limb_prims", "Limb", &ins);
        let (la, lb, lc, ld) = (Limb(a), Limb(b), Limb(c), Limb(d));
        // mac: a + b*c + d  (never overflows two words)
        let m = a as u128 + (b as u128) * (c as u128) + d as u128;
        cs.check("Limb::mac", "any", &Out::Val(vec![lo(m), hi(m)]), guard(|| {
            let (r, c) = la.mac(lb, lc, ld);
            Out::Val(vec![r.0, c.0])
        }));
        cs.l.nontrivial += (hi(m) != 0) as u64;
        if d == al[0] {
            // three-argument primitives (enumerated once: d fixed to first member)
            cs.group();
            let s = a as u128 + b as u128 + c as u128;
            cs.check("Limb::adc", "any", &Out::Val(vec![lo(s), hi(s)]), guard(|| {
                let (r, c) = la.adc(lb, lc);
                Out::Val(vec![r.0, c.0])
            }));
            if hi(s) == 2 {
                cs.l.class("adc_carry_out_2");
            }
            if c == 0 || c == MAX {
                // borrow masks are the documented domain of the borrow-in
                cs.group();
                let bin = (c >> 63) as u128;
                let full = (a as u128).wrapping_sub(b as u128 + bin);
                let bout = if (a as u128) < (b as u128 + bin) { MAX } else { 0 };
                cs.check("Limb::sbb", "any", &Out::Val(vec![lo(full), bout]), guard(|| {
                    let (r, bo) = la.sbb(lb, lc);
                    Out::Val(vec![r.0, bo.0])
                }));
            }
        }
        if d == al[0] && c == al[0] {
            // two-argument forms
            let s = a as u128 + b as u128;
            let ovf = hi(s) != 0;
            cs.group();
            cs.check("Limb::overflowing_add", "any", &Out::Val(vec![lo(s), hi(s)]), guard(|| {
                let (r, c) = la.overflowing_add(lb);
                Out::Val(vec![r.0, c.0])
            }));
            cs.group();
            let wr = Out::Val(vec![lo(s)]);
            cs.check("Limb::wrapping_add", "any", &wr, guard(|| Out::Val(vec![la.wrapping_add(lb).0])));
            cs.check("Limb:WrappingAdd", "any", &wr, guard(|| Out::Val(vec![WrappingAdd::wrapping_add(&la, &lb).0])));
            cs.check("Wrapping<Limb>+", "any", &wr, guard(|| Out::Val(vec![(Wrapping(la) + Wrapping(lb)).0.0])));
            cs.check("Wrapping<Limb>+&", "any", &wr, guard(|| Out::Val(vec![(Wrapping(la) + &Wrapping(lb)).0.0])));
            cs.check("&Wrapping<Limb>+", "any", &wr, guard(|| Out::Val(vec![(&Wrapping(la) + Wrapping(lb)).0.0])));
            cs.check("Wrapping<Limb>+=", "any", &wr, guard(|| {
                let mut x = Wrapping(la);
                x += Wrapping(lb);
                Out::Val(vec![x.0.0])
            }));
            cs.check("Wrapping<Limb>+=&", "any", &wr, guard(|| {
                let mut x = Wrapping(la);
                x += &Wrapping(lb);
                Out::Val(vec![x.0.0])
            }));
            cs.group();
            cs.check("Limb::saturating_add", "any", &Out::Val(vec![if ovf { MAX } else { lo(s) }]),
                guard(|| Out::Val(vec![la.saturating_add(lb).0])));
            cs.group();
            let ck = if ovf { Out::None } else { Out::Val(vec![lo(s)]) };
            cs.check("Limb:CheckedAdd", "any", &ck, guard(|| limb_opt(la.checked_add(&lb))));
            cs.check("Checked<Limb>+", "any", &ck, guard(|| limb_opt((Checked::new(la) + Checked::new(lb)).0)));
            cs.check("Checked<Limb>+=", "any", &ck, guard(|| {
                let mut x = Checked::new(la);
                x += Checked::new(lb);
                limb_opt(x.0)
            }));
            cs.group();
            let pk = if ovf { Out::Panic } else { Out::Val(vec![lo(s)]) };
            cs.check("Limb+", "any", &pk, guard(|| Out::Val(vec![(la + lb).0])));

            // subtraction
            let under = a < b;
            let d_ = a.wrapping_sub(b);
            cs.group();
            let wr = Out::Val(vec![d_]);
            cs.check("Limb::wrapping_sub", "any", &wr, guard(|| Out::Val(vec![la.wrapping_sub(lb).0])));
            cs.check("Limb:WrappingSub", "any", &wr, guard(|| Out::Val(vec![WrappingSub::wrapping_sub(&la, &lb).0])));
            cs.check("Wrapping<Limb>-", "any", &wr, guard(|| Out::Val(vec![(Wrapping(la) - Wrapping(lb)).0.0])));
            cs.check("Wrapping<Limb>-=", "any", &wr, guard(|| {
                let mut x = Wrapping(la);
                x -= Wrapping(lb);
                Out::Val(vec![x.0.0])
            }));
            cs.check("Wrapping<Limb>-=&", "any", &wr, guard(|| {
                let mut x = Wrapping(la);
                x -= &Wrapping(lb);
                Out::Val(vec![x.0.0])
            }));
            cs.group();
            cs.check("Limb::saturating_sub", "any", &Out::Val(vec![if under { 0 } else { d_ }]),
                guard(|| Out::Val(vec![la.saturating_sub(lb).0])));
            cs.group();
            let ck = if under { Out::None } else { Out::Val(vec![d_]) };
            cs.check("Limb:CheckedSub", "any", &ck, guard(|| limb_opt(la.checked_sub(&lb))));
            cs.check("Checked<Limb>-", "any", &ck, guard(|| limb_opt((Checked::new(la) - Checked::new(lb)).0)));
            cs.check("Checked<Limb>-=", "any", &ck, guard(|| {
                let mut x = Checked::new(la);
                x -= Checked::new(lb);
                limb_opt(x.0)
            }));
            cs.group();
            let pk = if under { Out::Panic } else { Out::Val(vec![d_]) };
            cs.check("Limb-", "any", &pk, guard(|| Out::Val(vec![(la - lb).0])));
            cs.check("Limb-&", "any", &pk, guard(|| Out::Val(vec![(la - &lb).0])));

            // multiplication forms of the word (shared with C03, kept here as part of the primitives)
            let pr = (a as u128) * (b as u128);
            let movf = hi(pr) != 0;
            cs.group();
            let wr = Out::Val(vec![lo(pr)]);
            cs.check("Limb::wrapping_mul", "any", &wr, guard(|| Out::Val(vec![la.wrapping_mul(lb).0])));
            cs.check("Limb:WrappingMul", "any", &wr, guard(|| Out::Val(vec![WrappingMul::wrapping_mul(&la, &lb).0])));
            cs.check("Wrapping<Limb>*", "any", &wr, guard(|| Out::Val(vec![(Wrapping(la) * Wrapping(lb)).0.0])));
            cs.check("Wrapping<Limb>*=", "any", &wr, guard(|| {
                let mut x = Wrapping(la);
                x *= Wrapping(lb);
                Out::Val(vec![x.0.0])
            }));
            cs.group();
            cs.check("Limb::saturating_mul", "any", &Out::Val(vec![if movf { MAX } else { lo(pr) }]),
                guard(|| Out::Val(vec![la.saturating_mul(lb).0])));
            cs.group();
            let ck = if movf { Out::None } else { Out::Val(vec![lo(pr)]) };
            cs.check("Limb:CheckedMul", "any", &ck, guard(|| limb_opt(la.checked_mul(&lb))));
            cs.check("Checked<Limb>*", "any", &ck, guard(|| limb_opt((Checked::new(la) * Checked::new(lb)).0)));
            cs.check("Checked<Limb>*=", "any", &ck, guard(|| {
                let mut x = Checked::new(la);
                x *= Checked::new(lb);
                limb_opt(x.0)
            }));
            cs.group();
            let pk = if movf { Out::Panic } else { Out::Val(vec![lo(pr)]) };
            cs.check("Limb*", "any", &pk, guard(|| Out::Val(vec![(la * lb).0])));
            cs.check("Limb*&", "any", &pk, guard(|| Out::Val(vec![(la * &lb).0])));
            cs.check("&Limb*", "any", &pk, guard(|| Out::Val(vec![(&la * lb).0])));
            cs.check("&Limb*&", "any", &pk, guard(|| Out::Val(vec![(&la * &lb).0])));
            if b == al[0] {
                cs.group();
                let ng = Out::Val(vec![a.wrapping_neg()]);
                cs.check("Limb::wrapping_neg", "any", &ng, guard(|| Out::Val(vec![la.wrapping_neg().0])));
                cs.check("Limb:WrappingNeg", "any", &ng, guard(|| Out::Val(vec![WrappingNeg::wrapping_neg(&la).0])));
                cs.check("-Wrapping<Limb>", "any", &ng, guard(|| Out::Val(vec![(-Wrapping(la)).0.0])));
            }
        }
    });
}

fn uopt<const N: usize>(o: CtOption<Uint<N>>) -> Out {
    match Option::<Uint<N>>::from(o) {
        Some(x) => Out::Val(w(&x)),
        None => Out::None,
    }
}

fn pair_operands(n: usize, ctx: &Ctx) -> Vec<Limbs> {
    let mut v = if n <= 2 {
        full(n, &l9())
    } else if n == 3 || n == 4 {
        full(n, &l5())
    } else if ctx.thorough() && n <= 8 {
        runs(n, &l6g(ctx.seed), 3)
    } else if ctx.thorough() {
        let mut v = runs(n, &l6g(ctx.seed), 2);
        v.extend(runs(n, &l3(), 3));
        v
    } else {
        let mut v = runs(n, &l5(), 2);
        if n <= 12 {
            v.extend(runs(n, &l3(), 3));
        }
        v
    };
    if n > 1 {
        let (g1, g2) = generic_limbs(ctx.seed);
        v.push((0..n).map(|i| if i % 2 == 0 { g1 } else { g2 }.rotate_left(i as u32)).collect());
        v.push((0..n).map(|i| if i % 2 == 0 { 0 } else { MAX }).collect());
        v.push((0..n).map(|i| if i % 2 == 0 { MAX } else { 0 }).collect());
    }
    dedup(v)
}

fn fam_uint<const N: usize>(ctx: &Ctx) {
    let fam = "uint_addsub";
    if !ctx.want(fam) {
        return;
    }
    let ops = pair_operands(N, ctx);
    let carries: [u64; 4] = [0, 1, 2, MAX];
    let wname = format!("Uint<{N}>");
    let m = pow2(64 * N);
    let k = ops.len();
    let (replay_a, replay_b) = replay_inputs(ctx);
    let body = |a: &Limbs, b: &Limbs, l: &mut Local| {
        let ins: [&[u64]; 2] = [a, b];
        let mut cs = Case::new(l, P, fam, &wname, &ins);
        let (ua, ub) = (u::<N>(a), u::<N>(b));
        let (ba, bb) = (to_big(a), to_big(b));
        // ---- addition
        let sum = &ba + &bb;
        let ovf = sum >= m;
        let sw = from_big(&sum, N);
        if ovf {
            cs.l.class("add_overflow");
        }
        if sum == m {
            cs.l.class("sum_eq_2^BITS");
        }
        if &sum + 1u32 == m {
            cs.l.class("sum_eq_2^BITS-1");
        }
        cs.l.nontrivial += (!ba.is_zero() && !bb.is_zero()) as u64;
        for &c in &carries {
            cs.group();
            let s = &sum + c;
            let exp = Out::v2(&from_big(&s, N), (&s >> (64 * N)).to_u64_digits().first().copied().unwrap_or(0));
            cs.extra = Some(format!("carry_in={c:#x}"));
            cs.check("Uint::adc", "any", &exp, guard(|| {
                let (r, co) = ua.adc(&ub, Limb(c));
                Out::v2(&w(&r), co.0)
            }));
        }
        cs.extra = None;
        cs.group();
        let wr = Out::v(&sw);
        cs.check("Uint::wrapping_add", "any", &wr, guard(|| Out::v(&w(&ua.wrapping_add(&ub)))));
        cs.check("Uint:WrappingAdd", "any", &wr, guard(|| Out::v(&w(&WrappingAdd::wrapping_add(&ua, &ub)))));
        cs.check("Wrapping<Uint>+", "any", &wr, guard(|| Out::v(&w(&(Wrapping(ua) + Wrapping(ub)).0))));
        cs.check("Wrapping<Uint>+&", "any", &wr, guard(|| Out::v(&w(&(Wrapping(ua) + &Wrapping(ub)).0))));
        cs.check("&Wrapping<Uint>+", "any", &wr, guard(|| Out::v(&w(&(&Wrapping(ua) + Wrapping(ub)).0))));
        cs.check("&Wrapping<Uint>+&", "any", &wr, guard(|| Out::v(&w(&(&Wrapping(ua) + &Wrapping(ub)).0))));
        cs.check("Wrapping<Uint>+=", "any", &wr, guard(|| {
            let mut x = Wrapping(ua);
            x += Wrapping(ub);
            Out::v(&w(&x.0))
        }));
        cs.check("Wrapping<Uint>+=&", "any", &wr, guard(|| {
            let mut x = Wrapping(ua);
            x += &Wrapping(ub);
            Out::v(&w(&x.0))
        }));
        cs.group();
        let sat = if ovf { vec![MAX; N] } else { sw.clone() };
        cs.check("Uint::saturating_add", "any", &Out::v(&sat), guard(|| Out::v(&w(&ua.saturating_add(&ub)))));
        cs.group();
        let ck = Out::opt(!ovf, &sw);
        cs.check("Uint:CheckedAdd", "any", &ck, guard(|| uopt(ua.checked_add(&ub))));
        cs.check("Checked<Uint>+", "any", &ck, guard(|| uopt((Checked::new(ua) + Checked::new(ub)).0)));
        cs.check("Checked<Uint>+&", "any", &ck, guard(|| uopt((Checked::new(ua) + &Checked::new(ub)).0)));
        cs.check("&Checked<Uint>+", "any", &ck, guard(|| uopt((&Checked::new(ua) + Checked::new(ub)).0)));
        cs.check("&Checked<Uint>+&", "any", &ck, guard(|| uopt((&Checked::new(ua) + &Checked::new(ub)).0)));
        cs.check("Checked<Uint>+=", "any", &ck, guard(|| {
            let mut x = Checked::new(ua);
            x += Checked::new(ub);
            uopt(x.0)
        }));
        cs.check("Checked<Uint>+=&", "any", &ck, guard(|| {
            let mut x = Checked::new(ua);
            x += &Checked::new(ub);
            uopt(x.0)
        }));
        cs.group();
        let pk = if ovf { Out::Panic } else { Out::v(&sw) };
        cs.check("Uint+", "any", &pk, guard(|| Out::v(&w(&(ua + ub)))));
        cs.check("Uint+&", "any", &pk, guard(|| Out::v(&w(&(ua + &ub)))));
        cs.check("Uint+=", "any", &pk, guard(|| {
            let mut x = ua;
            x += ub;
            Out::v(&w(&x))
        }));
        cs.check("Uint+=&", "any", &pk, guard(|| {
            let mut x = ua;
            x += &ub;
            Out::v(&w(&x))
        }));

        // ---- subtraction
        let under = ba < bb;
        if under {
            cs.l.class("sub_underflow");
        }
        let diff = if under { &m + &ba - &bb } else { &ba - &bb };
        let dw = from_big(&diff, N);
        for &bin in &[0u64, MAX] {
            cs.group();
            let rhs = &bb + (bin >> 63);
            let un = ba < rhs;
            let d = if un { &m + &ba - &rhs } else { &ba - &rhs };
            let exp = Out::v2(&from_big(&d, N), if un { MAX } else { 0 });
            cs.extra = Some(format!("borrow_in={bin:#x}"));
            cs.check("Uint::sbb", "any", &exp, guard(|| {
                let (r, bo) = ua.sbb(&ub, Limb(bin));
                Out::v2(&w(&r), bo.0)
            }));
        }
        cs.extra = None;
        cs.group();
        let wr = Out::v(&dw);
        cs.check("Uint::wrapping_sub", "any", &wr, guard(|| Out::v(&w(&ua.wrapping_sub(&ub)))));
        cs.check("Uint:WrappingSub", "any", &wr, guard(|| Out::v(&w(&WrappingSub::wrapping_sub(&ua, &ub)))));
        cs.check("Wrapping<Uint>-", "any", &wr, guard(|| Out::v(&w(&(Wrapping(ua) - Wrapping(ub)).0))));
        cs.check("Wrapping<Uint>-&", "any", &wr, guard(|| Out::v(&w(&(Wrapping(ua) - &Wrapping(ub)).0))));
        cs.check("&Wrapping<Uint>-", "any", &wr, guard(|| Out::v(&w(&(&Wrapping(ua) - Wrapping(ub)).0))));
        cs.check("&Wrapping<Uint>-&", "any", &wr, guard(|| Out::v(&w(&(&Wrapping(ua) - &Wrapping(ub)).0))));
        cs.check("Wrapping<Uint>-=", "any", &wr, guard(|| {
            let mut x = Wrapping(ua);
            x -= Wrapping(ub);
            Out::v(&w(&x.0))
        }));
        cs.check("Wrapping<Uint>-=&", "any", &wr, guard(|| {
            let mut x = Wrapping(ua);
            x -= &Wrapping(ub);
            Out::v(&w(&x.0))
        }));
        cs.group();
        let sat = if under { vec![0; N] } else { dw.clone() };
        cs.check("Uint::saturating_sub", "any", &Out::v(&sat), guard(|| Out::v(&w(&ua.saturating_sub(&ub)))));
        cs.group();
        let ck = Out::opt(!under, &dw);
        cs.check("Uint:CheckedSub", "any", &ck, guard(|| uopt(ua.checked_sub(&ub))));
        cs.check("Checked<Uint>-", "any", &ck, guard(|| uopt((Checked::new(ua) - Checked::new(ub)).0)));
        cs.check("Checked<Uint>-&", "any", &ck, guard(|| uopt((Checked::new(ua) - &Checked::new(ub)).0)));
        cs.check("&Checked<Uint>-", "any", &ck, guard(|| uopt((&Checked::new(ua) - Checked::new(ub)).0)));
        cs.check("&Checked<Uint>-&", "any", &ck, guard(|| uopt((&Checked::new(ua) - &Checked::new(ub)).0)));
        cs.check("Checked<Uint>-=", "any", &ck, guard(|| {
            let mut x = Checked::new(ua);
            x -= Checked::new(ub);
            uopt(x.0)
        }));
        cs.check("Checked<Uint>-=&", "any", &ck, guard(|| {
            let mut x = Checked::new(ua);
            x -= &Checked::new(ub);
            uopt(x.0)
        }));
        cs.group();
        let pk = if under { Out::Panic } else { Out::v(&dw) };
        cs.check("Uint-", "any", &pk, guard(|| Out::v(&w(&(ua - ub)))));
        cs.check("Uint-&", "any", &pk, guard(|| Out::v(&w(&(ua - &ub)))));
        cs.check("Uint-=", "any", &pk, guard(|| {
            let mut x = ua;
            x -= ub;
            Out::v(&w(&x))
        }));
        cs.check("Uint-=&", "any", &pk, guard(|| {
            let mut x = ua;
            x -= &ub;
            Out::v(&w(&x))
        }));
    };
    if let Some(a) = replay_a {
        ctx.seq(fam, &wname, |l| body(&a, &replay_b.unwrap(), l));
        return;
    }
    ctx.par_for(fam, &wname, k * k, |i, l| body(&ops[i / k], &ops[i % k], l));

    // negation: unary, over the full operand set (+BITS)
    let mut un = ops.clone();
    un.extend(bits(N));
    let un = dedup(un);
    ctx.par_for("uint_neg", &wname, un.len(), |i, l| {
        let a = &un[i];
        let ins: [&[u64]; 1] = [a];
        let mut cs = Case::new(l, P, "uint_neg", &wname, &ins);
        let ua = u::<N>(a);
        let ba = to_big(a);
        let neg = if ba.is_zero() { BigUint::zero() } else { &m - &ba };
        let nw = from_big(&neg, N);
        cs.l.nontrivial += (!ba.is_zero()) as u64;
        let ng = Out::v(&nw);
        cs.check("Uint::wrapping_neg", "any", &ng, guard(|| Out::v(&w(&ua.wrapping_neg()))));
        cs.check("Uint:WrappingNeg", "any", &ng, guard(|| Out::v(&w(&WrappingNeg::wrapping_neg(&ua)))));
        cs.check("-Wrapping<Uint>", "any", &ng, guard(|| Out::v(&w(&(-Wrapping(ua)).0))));
        cs.check("-&Wrapping<Uint>", "any", &ng, guard(|| Out::v(&w(&(-&Wrapping(ua)).0))));
        cs.check("Uint::wrapping_neg_if(true)", "any", &ng, guard(|| Out::v(&w(&ua.wrapping_neg_if(ConstChoice::TRUE)))));
        cs.group();
        cs.check("Uint::wrapping_neg_if(false)", "any", &Out::v(a), guard(|| Out::v(&w(&ua.wrapping_neg_if(ConstChoice::FALSE)))));
        cs.group();
        // carry set iff self == 0
        cs.check("Uint::carrying_neg", "any", &Out::v2(&nw, ba.is_zero() as u64), guard(|| {
            let (r, c) = ua.carrying_neg();
            Out::v2(&w(&r), bool::from(c) as u64)
        }));
    });
}

fn replay_inputs(ctx: &Ctx) -> (Option<Limbs>, Option<Limbs>) {
    if let Some(r) = &ctx.replay {
        let ins = r["inputs"].as_array().cloned().unwrap_or_default();
        let g = |i: usize| ins.get(i).and_then(|v| v.as_str()).map(parse_hex_limbs);
        (g(0), g(1))
    } else {
        (None, None)
    }
}

fn bopt(o: CtOption<BoxedUint>) -> Out {
    match Option::<BoxedUint>::from(o) {
        Some(x) => Out::Val(bw(&x)),
        None => Out::None,
    }
}

/// Acceptable outcomes where the documentation allows two (DESIGN §2.1 rule 3).
fn check_any(cs: &mut Case, form: &'static str, class: &str, acceptable: &[Out], got: Result<Out, String>) {
    cs.l.form(form);
    let (g, msg) = match got {
        Ok(o) => (o, String::new()),
        Err(m) => (Out::Panic, m),
    };
    if !acceptable.contains(&g) {
        let exp = acceptable.iter().map(|o| o.show()).collect::<Vec<_>>().join(" | ");
        let totality = matches!(g, Out::Panic) || acceptable.iter().all(|o| matches!(o, Out::Panic));
        let mut inputs: Vec<String> = cs.inputs.iter().map(|x| hex(x)).collect();
        if let Some(e) = &cs.extra {
            inputs.push(e.clone());
        }
        let f = Failure {
            props: if totality { vec![P, "C11"] } else { vec![P] },
            family: cs.family,
            form: form.to_string(),
            class: class.to_string(),
            width: cs.width.to_string(),
            inputs,
            expected: exp,
            got: if msg.is_empty() { g.show() } else { format!("panic: {msg}") },
        };
        cs.l.fail(f);
    }
}

fn boxed_operands(n: usize, ctx: &Ctx) -> Vec<Limbs> {
    let mut v = if n <= 2 {
        full(n, &l5())
    } else if ctx.thorough() && n <= 6 {
        runs(n, &l5(), 3)
    } else if n <= 8 || ctx.thorough() {
        runs(n, &l3(), 2)
    } else {
        runs(n, &l3(), 1)
    };
    v.push((0..n).map(|i| generic_limbs(ctx.seed).0.rotate_left(7 * i as u32)).collect());
    // exactly 2^(64(n-1)) (reaches "result exactly 2^BITS" of a narrower receiver)
    if n > 1 {
        let mut p = vec![0u64; n];
        p[n - 1] = 1;
        v.push(p);
    }
    dedup(v)
}

/// BoxedUint (la limbs) op BoxedUint (lb limbs), la and lb independent.
fn fam_boxed(ctx: &Ctx) {
    let fam = "boxed_addsub";
    if !ctx.want(fam) {
        return;
    }
    let lens: Vec<usize> = if ctx.thorough() { (1..=40).collect() } else { vec![1, 2, 3, 4, 5, 8, 17] };
    let sets: Vec<Vec<Limbs>> = (0..=*lens.iter().max().unwrap()).map(|n| if n == 0 { vec![] } else { boxed_operands(n, ctx) }).collect();
    // index space: (la, lb, ia, ib) flattened per (la, lb)
    let mut jobs = Vec::new();
    for &la in &lens {
        for &lb in &lens {
            jobs.push((la, lb));
        }
    }
    if let (Some(a), Some(b)) = replay_inputs(ctx) {
        ctx.seq(fam, "replay", |l| boxed_case(&a, &b, l));
        return;
    }
    for (la, lb) in jobs {
        let (sa, sb) = (&sets[la], &sets[lb]);
        let k = sb.len();
        ctx.par_for(fam, &format!("Boxed<{la}>x<{lb}>"), sa.len() * k, |i, l| boxed_case(&sa[i / k], &sb[i % k], l));
    }
}

fn boxed_case(a: &Limbs, b: &Limbs, l: &mut Local) {
    let fam = "boxed_addsub";
    let (la, lb) = (a.len(), b.len());
    let wname = format!("Boxed<{la}>x<{lb}>");
    let ins: [&[u64]; 2] = [a, b];
    let mut cs = Case::new(l, P, fam, &wname, &ins);
    let (xa, xb) = (bx(a), bx(b));
    let (ba, bb) = (to_big(a), to_big(b));
    let lm = la.max(lb);
    let m_max = pow2(64 * lm);
    let m_a = pow2(64 * la);
    let sum = &ba + &bb;
    cs.l.nontrivial += (!ba.is_zero() && !bb.is_zero()) as u64;
    let wider = lb > la;
    let cls = if wider { "rhs_wider" } else { "rhs_fits" };
    if wider {
        cs.l.class("boxed_rhs_wider");
    }
    if la > lb {
        cs.l.class("boxed_rhs_narrower");
    }
    // ---- forms that zero-pad to the larger precision (documented on fold_limbs)
    for &c in &[0u64, 1, 2, MAX] {
        cs.group();
        let s = &sum + c;
        let exp = Out::v2(&from_big(&s, lm), (&s >> (64 * lm)).to_u64_digits().first().copied().unwrap_or(0));
        cs.extra = Some(format!("carry_in={c:#x}"));
        cs.check("Boxed::adc", "any", &exp, guard(|| {
            let (r, co) = xa.adc(&xb, Limb(c));
            Out::v2(&bw(&r), co.0)
        }));
    }
    cs.extra = None;
    let ovf_max = sum >= m_max;
    let sw_max = from_big(&sum, lm);
    cs.group();
    let wr = Out::v(&sw_max);
    cs.check("Boxed::wrapping_add", "any", &wr, guard(|| Out::v(&bw(&xa.wrapping_add(&xb)))));
    cs.check("Boxed:WrappingAdd", "any", &wr, guard(|| Out::v(&bw(&WrappingAdd::wrapping_add(&xa, &xb)))));
    cs.check("Wrapping<Boxed>+", "any", &wr, guard(|| Out::v(&bw(&(Wrapping(xa.clone()) + Wrapping(xb.clone())).0))));
    cs.group();
    let ck = Out::opt(!ovf_max, &sw_max);
    cs.check("Boxed:CheckedAdd", "any", &ck, guard(|| bopt(xa.checked_add(&xb))));
    cs.group();
    let pk = if ovf_max { Out::Panic } else { Out::v(&sw_max) };
    cs.check("&Boxed+&Boxed", "any", &pk, guard(|| Out::v(&bw(&(&xa + &xb)))));
    cs.check("Boxed+Boxed", "any", &pk, guard(|| Out::v(&bw(&(xa.clone() + xb.clone())))));
    cs.check("Boxed+&Boxed", "any", &pk, guard(|| Out::v(&bw(&(xa.clone() + &xb)))));
    cs.check("&Boxed+Boxed", "any", &pk, guard(|| Out::v(&bw(&(&xa + xb.clone())))));

    // ---- in-place forms: result has the receiver's precision
    let sw_a = from_big(&sum, la);
    let ovf_a = sum >= m_a;
    if ovf_a && !ovf_max {
        cs.l.class("overflows_receiver_only");
    }
    // `adc_assign`: documented "Panics if rhs has a larger precision than self".
    cs.group();
    if wider {
        check_any(&mut cs, "Boxed::adc_assign", cls, &[Out::Panic], guard(|| {
            let mut x = xa.clone();
            let c = x.adc_assign(&xb, Limb::ZERO);
            Out::v2(&bw(&x), c.0)
        }));
    } else {
        let exp = Out::v2(&sw_a, ovf_a as u64);
        cs.check("Boxed::adc_assign", cls, &exp, guard(|| {
            let mut x = xa.clone();
            let c = x.adc_assign(&xb, Limb::ZERO);
            Out::v2(&bw(&x), c.0)
        }));
    }
    // `+=`: exact in the receiver, panic iff the true sum does not fit the receiver. For a wider rhs the
    // precision-mismatch panic of adc_assign is accepted as well; a silently truncated value never is.
    let acc: Vec<Out> = if ovf_a {
        vec![Out::Panic]
    } else if wider {
        vec![Out::v(&sw_a), Out::Panic]
    } else {
        vec![Out::v(&sw_a)]
    };
    if wider {
        check_any(&mut cs, "Boxed+=&Boxed", cls, &acc, guard(|| {
            let mut x = xa.clone();
            x += &xb;
            Out::v(&bw(&x))
        }));
        check_any(&mut cs, "Boxed+=Boxed", cls, &acc, guard(|| {
            let mut x = xa.clone();
            x += xb.clone();
            Out::v(&bw(&x))
        }));
    } else {
        // same precision rules as `&a + &b` when the rhs is not wider: one C15 group with the by-reference operator
        cs.group();
        cs.check("&Boxed+&Boxed", cls, &acc[0], guard(|| Out::v(&bw(&(&xa + &xb)))));
        cs.check("Boxed+=&Boxed", cls, &acc[0], guard(|| {
            let mut x = xa.clone();
            x += &xb;
            Out::v(&bw(&x))
        }));
        cs.check("Boxed+=Boxed", cls, &acc[0], guard(|| {
            let mut x = xa.clone();
            x += xb.clone();
            Out::v(&bw(&x))
        }));
        cs.check("Boxed::adc_assign (as operator)", cls, &acc[0], guard(|| {
            let mut x = xa.clone();
            let c = x.adc_assign(&xb, Limb::ZERO);
            if c.0 != 0 { panic!("carry") }
            Out::v(&bw(&x))
        }));
    }
    // Wrapping<Boxed> += : sum mod 2^BITS(receiver)
    let accw: Vec<Out> = if wider { vec![Out::v(&sw_a), Out::Panic] } else { vec![Out::v(&sw_a)] };
    check_any(&mut cs, "Wrapping<Boxed>+=", cls, &accw, guard(|| {
        let mut x = Wrapping(xa.clone());
        x += Wrapping(xb.clone());
        Out::v(&bw(&x.0))
    }));
    check_any(&mut cs, "Wrapping<Boxed>+=&", cls, &accw, guard(|| {
        let mut x = Wrapping(xa.clone());
        x += &Wrapping(xb.clone());
        Out::v(&bw(&x.0))
    }));

    // ---- subtraction
    let under = ba < bb;
    let diff_max = if under { &m_max + &ba - &bb } else { &ba - &bb };
    let dw_max = from_big(&diff_max, lm);
    for &bin in &[0u64, MAX] {
        cs.group();
        let rhs = &bb + (bin >> 63);
        let un = ba < rhs;
        let d = if un { &m_max + &ba - &rhs } else { &ba - &rhs };
        cs.extra = Some(format!("borrow_in={bin:#x}"));
        cs.check("Boxed::sbb", "any", &Out::v2(&from_big(&d, lm), if un { MAX } else { 0 }), guard(|| {
            let (r, bo) = xa.sbb(&xb, Limb(bin));
            Out::v2(&bw(&r), bo.0)
        }));
    }
    cs.extra = None;
    cs.group();
    let wr = Out::v(&dw_max);
    cs.check("Boxed::wrapping_sub", "any", &wr, guard(|| Out::v(&bw(&xa.wrapping_sub(&xb)))));
    cs.check("Boxed:WrappingSub", "any", &wr, guard(|| Out::v(&bw(&WrappingSub::wrapping_sub(&xa, &xb)))));
    cs.check("Wrapping<Boxed>-", "any", &wr, guard(|| Out::v(&bw(&(Wrapping(xa.clone()) - Wrapping(xb.clone())).0))));
    cs.group();
    let ck = Out::opt(!under, &dw_max);
    cs.check("Boxed:CheckedSub", "any", &ck, guard(|| bopt(xa.checked_sub(&xb))));
    cs.group();
    let pk = if under { Out::Panic } else { Out::v(&dw_max) };
    cs.check("&Boxed-&Boxed", "any", &pk, guard(|| Out::v(&bw(&(&xa - &xb)))));
    cs.check("Boxed-Boxed", "any", &pk, guard(|| Out::v(&bw(&(xa.clone() - xb.clone())))));
    cs.check("Boxed-&Boxed", "any", &pk, guard(|| Out::v(&bw(&(xa.clone() - &xb)))));
    cs.check("&Boxed-Boxed", "any", &pk, guard(|| Out::v(&bw(&(&xa - xb.clone())))));
    // in place
    let diff_a = if under { (&m_a + &ba - (&bb % &m_a)) % &m_a } else { &ba - &bb };
    let dw_a = from_big(&diff_a, la);
    cs.group();
    if wider {
        check_any(&mut cs, "Boxed::sbb_assign", cls, &[Out::Panic], guard(|| {
            let mut x = xa.clone();
            let c = x.sbb_assign(&xb, Limb::ZERO);
            Out::v2(&bw(&x), c.0)
        }));
    } else {
        cs.check("Boxed::sbb_assign", cls, &Out::v2(&dw_a, if under { MAX } else { 0 }), guard(|| {
            let mut x = xa.clone();
            let c = x.sbb_assign(&xb, Limb::ZERO);
            Out::v2(&bw(&x), c.0)
        }));
    }
    let acc: Vec<Out> = if under {
        vec![Out::Panic]
    } else if wider {
        vec![Out::v(&dw_a), Out::Panic]
    } else {
        vec![Out::v(&dw_a)]
    };
    if wider {
        check_any(&mut cs, "Boxed-=&Boxed", cls, &acc, guard(|| {
            let mut x = xa.clone();
            x -= &xb;
            Out::v(&bw(&x))
        }));
        check_any(&mut cs, "Boxed-=Boxed", cls, &acc, guard(|| {
            let mut x = xa.clone();
            x -= xb.clone();
            Out::v(&bw(&x))
        }));
    } else {
        cs.group();
        cs.check("&Boxed-&Boxed", cls, &acc[0], guard(|| Out::v(&bw(&(&xa - &xb)))));
        cs.check("Boxed-=&Boxed", cls, &acc[0], guard(|| {
            let mut x = xa.clone();
            x -= &xb;
            Out::v(&bw(&x))
        }));
        cs.check("Boxed-=Boxed", cls, &acc[0], guard(|| {
            let mut x = xa.clone();
            x -= xb.clone();
            Out::v(&bw(&x))
        }));
    }
    let accw: Vec<Out> = if wider { vec![Out::v(&dw_a), Out::Panic] } else { vec![Out::v(&dw_a)] };
    check_any(&mut cs, "Wrapping<Boxed>-=", cls, &accw, guard(|| {
        let mut x = Wrapping(xa.clone());
        x -= Wrapping(xb.clone());
        Out::v(&bw(&x.0))
    }));
    check_any(&mut cs, "Wrapping<Boxed>-=&", cls, &accw, guard(|| {
        let mut x = Wrapping(xa.clone());
        x -= &Wrapping(xb.clone());
        Out::v(&bw(&x.0))
    }));

    // ---- mixed: Boxed op Uint<N> / primitive, when the rhs has a fixed width instantiated here
    macro_rules! with_uint {
        ($n:literal) => {
            if lb == $n {
                let ub = u::<$n>(b);
                let acc_add: Vec<Out> = if ovf_a { vec![Out::Panic] } else if wider { vec![Out::v(&sw_a), Out::Panic] } else { vec![Out::v(&sw_a)] };
                let acc_sub: Vec<Out> = if under { vec![Out::Panic] } else if wider { vec![Out::v(&dw_a), Out::Panic] } else { vec![Out::v(&dw_a)] };
                check_any(&mut cs, concat!("Boxed+=Uint<", $n, ">"), cls, &acc_add, guard(|| { let mut x = xa.clone(); x += ub; Out::v(&bw(&x)) }));
                check_any(&mut cs, concat!("Boxed+=&Uint<", $n, ">"), cls, &acc_add, guard(|| { let mut x = xa.clone(); x += &ub; Out::v(&bw(&x)) }));
                check_any(&mut cs, concat!("Boxed+Uint<", $n, ">"), cls, &acc_add, guard(|| Out::v(&bw(&(xa.clone() + ub)))));
                check_any(&mut cs, concat!("Boxed+&Uint<", $n, ">"), cls, &acc_add, guard(|| Out::v(&bw(&(xa.clone() + &ub)))));
                check_any(&mut cs, concat!("&Boxed+Uint<", $n, ">"), cls, &acc_add, guard(|| Out::v(&bw(&(&xa + ub)))));
                check_any(&mut cs, concat!("&Boxed+&Uint<", $n, ">"), cls, &acc_add, guard(|| Out::v(&bw(&(&xa + &ub)))));
                check_any(&mut cs, concat!("Boxed-=Uint<", $n, ">"), cls, &acc_sub, guard(|| { let mut x = xa.clone(); x -= ub; Out::v(&bw(&x)) }));
                check_any(&mut cs, concat!("Boxed-=&Uint<", $n, ">"), cls, &acc_sub, guard(|| { let mut x = xa.clone(); x -= &ub; Out::v(&bw(&x)) }));
                check_any(&mut cs, concat!("Boxed-Uint<", $n, ">"), cls, &acc_sub, guard(|| Out::v(&bw(&(xa.clone() - ub)))));
                check_any(&mut cs, concat!("Boxed-&Uint<", $n, ">"), cls, &acc_sub, guard(|| Out::v(&bw(&(xa.clone() - &ub)))));
                check_any(&mut cs, concat!("&Boxed-Uint<", $n, ">"), cls, &acc_sub, guard(|| Out::v(&bw(&(&xa - ub)))));
                check_any(&mut cs, concat!("&Boxed-&Uint<", $n, ">"), cls, &acc_sub, guard(|| Out::v(&bw(&(&xa - &ub)))));
            }
        };
    }
    with_uint!(1);
    with_uint!(2);
    with_uint!(3);
    with_uint!(4);
    with_uint!(8);

    // primitives: the value of b's low limbs reinterpreted as u8..u128 right-hand sides
    if lb <= 2 {
        let v128: u128 = (b[0] as u128) | ((*b.get(1).unwrap_or(&0) as u128) << 64);
        macro_rules! prim {
            ($t:ty, $name:literal) => {{
                let pv = v128 as $t;
                let bp = BigUint::from(pv);
                let pwider = (<$t>::BITS as usize) > 64 * la; // u128 with a 1-limb receiver
                let pcls = if pwider { "rhs_wider" } else { "rhs_fits" };
                let s = &ba + &bp;
                let sfit = s < m_a;
                let accp: Vec<Out> = if !sfit { vec![Out::Panic] } else if pwider { vec![Out::v(&from_big(&s, la)), Out::Panic] } else { vec![Out::v(&from_big(&s, la))] };
                cs.extra = Some(format!("rhs={}:{}", pv, $name));
                check_any(&mut cs, concat!("Boxed+", $name), pcls, &accp, guard(|| Out::v(&bw(&(xa.clone() + pv)))));
                check_any(&mut cs, concat!("&Boxed+", $name), pcls, &accp, guard(|| Out::v(&bw(&(&xa + pv)))));
                check_any(&mut cs, concat!("Boxed+=", $name), pcls, &accp, guard(|| { let mut x = xa.clone(); x += pv; Out::v(&bw(&x)) }));
                let un = ba < bp;
                let accs: Vec<Out> = if un { vec![Out::Panic] } else if pwider { vec![Out::v(&from_big(&(&ba - &bp), la)), Out::Panic] } else { vec![Out::v(&from_big(&(&ba - &bp), la))] };
                check_any(&mut cs, concat!("Boxed-", $name), pcls, &accs, guard(|| Out::v(&bw(&(xa.clone() - pv)))));
                check_any(&mut cs, concat!("&Boxed-", $name), pcls, &accs, guard(|| Out::v(&bw(&(&xa - pv)))));
                check_any(&mut cs, concat!("Boxed-=", $name), pcls, &accs, guard(|| { let mut x = xa.clone(); x -= pv; Out::v(&bw(&x)) }));
                cs.extra = None;
            }};
        }
        prim!(u8, "u8");
        prim!(u16, "u16");
        prim!(u32, "u32");
        prim!(u64, "u64");
        prim!(u128, "u128");
    }

    // negation (unary on a)
    if lb == 1 && b[0] == 0 {
        cs.group();
        let neg = if ba.is_zero() { BigUint::zero() } else { &m_a - &ba };
        let ng = Out::v(&from_big(&neg, la));
        cs.check("Boxed::wrapping_neg", "any", &ng, guard(|| Out::v(&bw(&xa.wrapping_neg()))));
        cs.check("Boxed:WrappingNeg", "any", &ng, guard(|| Out::v(&bw(&WrappingNeg::wrapping_neg(&xa)))));
        cs.check("-Wrapping<Boxed>", "any", &ng, guard(|| Out::v(&bw(&(-Wrapping(xa.clone())).0))));
        // the subtle::ConditionallyNegatable route: chosen = the negation, not chosen = the operand
        cs.check("Boxed:ConditionallyNegatable(1)", "any", &ng, guard(|| {
            let mut t = xa.clone();
            crypto_bigint::subtle::ConditionallyNegatable::conditional_negate(&mut t, crypto_bigint::subtle::Choice::from(1));
            Out::v(&bw(&t))
        }));
        cs.group();
        cs.check("Boxed:ConditionallyNegatable(0)", "any", &Out::v(a), guard(|| {
            let mut t = xa.clone();
            crypto_bigint::subtle::ConditionallyNegatable::conditional_negate(&mut t, crypto_bigint::subtle::Choice::from(0));
            Out::v(&bw(&t))
        }));
    }
}

/// E2-style closure: `Checked<T>` is sticky-none over histories of {+,-,*} (two registers, depth <= 4).
fn fam_checked_hist(ctx: &Ctx) {
    let fam = "checked_history";
    if !ctx.want(fam) || ctx.replay.is_some() {
        return;
    }
    type T = crypto_bigint::U64;
    let seeds: [Option<u64>; 5] = [Some(0), Some(1), Some(2), Some(MAX), None];
    let depth = if ctx.thorough() { 5 } else { 4 };
    // actions: r[i] = r[i] op r[j]; 2 regs x 2 x 3 ops = 12
    let n_act = 12usize;
    let n_hist: usize = (0..=depth).map(|d| n_act.pow(d as u32)).sum();
    let inits: Vec<(Option<u64>, Option<u64>)> =
        seeds.iter().flat_map(|a| seeds.iter().map(move |b| (*a, *b))).collect();
    let total = inits.len() * n_act.pow(depth as u32);
    let _ = n_hist;
    let mk = |v: Option<u64>| -> Checked<T> {
        match v {
            Some(x) => Checked::new(T::from_u64(x)),
            None => Checked(CtOption::new(T::ZERO, 0.into())),
        }
    };
    ctx.par_for(fam, "Checked<U64>", total, |idx, l| {
        let init = inits[idx % inits.len()];
        let mut h = idx / inits.len();
        let mut regs = [mk(init.0), mk(init.1)];
        let mut model: [Option<u128>; 2] = [init.0.map(|x| x as u128), init.1.map(|x| x as u128)];
        let mut hist = Vec::new();
        l.cases += 1;
        for _step in 0..depth {
            let a = h % n_act;
            h /= n_act;
            let (i, j, op) = (a % 2, (a / 2) % 2, a / 4);
            hist.push(a as u64);
            let rhs = regs[j];
            let r = guard(|| match op {
                0 => regs[i] + rhs,
                1 => regs[i] - rhs,
                _ => regs[i] * rhs,
            });
            let mr = match (model[i], model[j]) {
                (Some(x), Some(y)) => match op {
                    0 => x.checked_add(y),
                    1 => x.checked_sub(y),
                    _ => x.checked_mul(y),
                }
                .filter(|v| *v <= MAX as u128),
                _ => None,
            };
            l.form("Checked<U64> history step");
            match r {
                Ok(v) => {
                    regs[i] = v;
                    model[i] = mr;
                    let got: Option<T> = Option::from(v.0);
                    let gotv = got.map(|x| x.as_words()[0] as u128);
                    if gotv != mr {
                        l.fail(failure(&[P], fam, "Checked<U64> history", "any", "Checked<U64>".into(),
                            vec![format!("init={init:?}"), format!("actions={hist:?}")], format!("{mr:?}"), format!("{gotv:?}")));
                        return;
                    }
                }
                Err(m) => {
                    l.fail(failure(&[P, "C11"], fam, "Checked<U64> history", "any", "Checked<U64>".into(),
                        vec![format!("init={init:?}"), format!("actions={hist:?}")], format!("{mr:?}"), format!("panic: {m}")));
                    return;
                }
            }
        }
        if model.iter().any(|m| m.is_none()) && init.0.is_some() && init.1.is_some() {
            l.nontrivial += 1;
            l.class("history_reaches_none_from_some");
        }
    });
    // select on Checked
    let _ = Checked::<T>::conditional_select(&mk(Some(1)), &mk(None), 1.into());
}

fn main() {
    let ctx = Ctx::from_args(P, "exploration");
    ctx.set_rule("E1: complete product of operand generators (FULL(n,L9) n<=2, FULL(n,L5) n<=4, RUNS otherwise) x carry-ins x every form; \
        word primitives over L13^4; boxed receiver/rhs precisions independent; Checked<T> histories depth<=4/5 over 12 actions x 25 initial states. \
        A case is non-trivial when both operands are non-zero (limb primitives: high word of mac non-zero).");
    ctx.assume("limb values outside the stated alphabets are not explored");
    ctx.assume("oracle = num-bigint / u128 arithmetic");
    ctx.assume("for a right-hand side wider than a boxed receiver either the exact in-range result or a panic is accepted; a silently reduced value is not");
    fam_limb(&ctx);
    let widths: Vec<usize> = if ctx.thorough() { vec![1, 2, 3, 4, 5, 6, 7, 8, 9, 10, 11, 12, 16, 32] } else { vec![1, 2, 3, 4, 5, 6, 7, 8, 9, 10, 11, 12, 16, 32] };
    for n in widths {
        dispatch!(n, [1, 2, 3, 4, 5, 6, 7, 8, 9, 10, 11, 12, 16, 32], fam_uint(&ctx));
    }
    fam_boxed(&ctx);
    fam_checked_hist(&ctx);
    let _ = One::is_one(&BigUint::one());
    std::process::exit(ctx.finish());
}
