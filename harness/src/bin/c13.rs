//! C13 — signed integers behave as two's-complement mathematical integers (engine E1).
use crypto_bigint::subtle::CtOption;
use crypto_bigint::{
    Checked, CheckedAdd, CheckedMul, CheckedSub, ConstChoice, ConstCtOption, Int, Uint, Wrapping, WrappingAdd,
    WrappingSub, I128, I64,
};
use num_bigint::{BigInt, BigUint, Sign};
use num_traits::{One, Signed, Zero};
use vcommon::*;

const P: &str = "C13";

macro_rules! chk {
    ($cs:expr, $name:expr, $exp:expr, $e:expr) => {
        $cs.check($name, "any", $exp, guard(|| $e))
    };
}

fn sbig(l: &[u64]) -> BigInt {
    let n = l.len();
    let u = to_big(l);
    if l[n - 1] >> 63 == 1 {
        BigInt::from(u) - (BigInt::one() << (64 * n))
    } else {
        BigInt::from(u)
    }
}
/// two's complement of v modulo 2^(64n)
fn tc(v: &BigInt, n: usize) -> Limbs {
    let m = BigInt::one() << (64 * n);
    let r = ((v % &m) + &m) % &m;
    from_big(&r.to_biguint().unwrap(), n)
}
fn in_range(v: &BigInt, n: usize) -> bool {
    let h = BigInt::one() << (64 * n - 1);
    *v >= -&h && *v < h
}
fn iw<const N: usize>(x: &Int<N>) -> Limbs {
    w(x.as_uint())
}
fn i<const N: usize>(l: &[u64]) -> Int<N> {
    u::<N>(l).as_int()
}
fn icopt<const N: usize>(o: ConstCtOption<Int<N>>) -> Out {
    match Option::<Int<N>>::from(o) {
        Some(x) => Out::Val(iw(&x)),
        None => Out::None,
    }
}
fn iopt<const N: usize>(o: CtOption<Int<N>>) -> Out {
    match Option::<Int<N>>::from(o) {
        Some(x) => Out::Val(iw(&x)),
        None => Out::None,
    }
}
fn ucopt<const N: usize>(o: ConstCtOption<Uint<N>>) -> Out {
    match Option::<Uint<N>>::from(o) {
        Some(x) => Out::Val(w(&x)),
        None => Out::None,
    }
}

fn signed_values(n: usize, ctx: &Ctx) -> Vec<Limbs> {
    let th = ctx.thorough();
    let mut v = if n <= 2 { full(n, &l9()) } else { runs(n, &l5(), if n <= 4 || th { 3 } else { 2 }) };
    let bits_ = 64 * n;
    let mut sp: Vec<BigInt> = Vec::new();
    let min: BigInt = -(BigInt::one() << (bits_ - 1));
    let max: BigInt = (BigInt::one() << (bits_ - 1)) - 1;
    sp.extend([min.clone(), &min + 1, BigInt::from(-1), BigInt::zero(), BigInt::one(), max.clone(), &max - 1, BigInt::from(2), BigInt::from(-2)]);
    sp.push(BigInt::one() << (bits_ / 2));
    sp.push(-(BigInt::one() << (bits_ / 2)));
    sp.push((BigInt::one() << (bits_ / 2)) - 1);
    sp.push(-(BigInt::one() << (bits_ / 2)) + 1);
    sp.push(BigInt::one() << (bits_ / 2 - 1));
    sp.push(-(BigInt::one() << (bits_ / 2 - 1)));
    let js: Vec<usize> = if th || n <= 2 { (0..bits_ - 1).collect() } else { (0..bits_ - 1).filter(|j| j % 64 <= 1 || j % 64 >= 62 || j % 16 == 7).collect() };
    for j in js {
        sp.push(BigInt::one() << j);
        sp.push(-(BigInt::one() << j));
        sp.push((BigInt::one() << j) - 1);
        sp.push(-(BigInt::one() << j) - 1);
    }
    v.extend(sp.iter().map(|x| tc(x, n)));
    let (g1, g2) = generic_limbs(ctx.seed);
    v.push((0..n).map(|i| if i % 2 == 0 { g1 } else { g2 }.rotate_left(i as u32)).collect());
    v.push((0..n).map(|i| if i % 2 == 0 { g2 } else { g1 }.rotate_left(i as u32) | if i == n - 1 { TOP } else { 0 }).collect());
    let v = dedup(v);
    thin(v, if th { 2400 } else { 520 })
}

type WidenFn<'a, const N: usize, const M: usize> = Option<&'a (dyn Fn(&Int<N>, &Int<M>, &Uint<M>) -> Vec<Vec<u64>> + Sync)>;

fn fam_pair<const N: usize, const M: usize>(ctx: &Ctx, widen: WidenFn<N, M>) {
    let fam = "int_mul";
    if !ctx.want(fam) {
        return;
    }
    let wname = format!("Int<{N}>x<{M}>");
    let va = signed_values(N, ctx);
    let vb = if M == N { va.clone() } else { signed_values(M, ctx) };
    let k = vb.len();
    ctx.par_for(fam, &wname, va.len() * k, |idx, l| {
        let (a, b) = (&va[idx / k], &vb[idx % k]);
        let ins: [&[u64]; 2] = [a, b];
        let mut cs = Case::new(l, P, fam, &wname, &ins);
        let (ia, ib) = (i::<N>(a), i::<M>(b));
        let (sa, sb) = (sbig(a), sbig(b));
        let prod = &sa * &sb;
        let fits = in_range(&prod, N);
        cs.l.nontrivial += (!sa.is_zero() && !sb.is_zero()) as u64;
        if prod.abs() == BigInt::one() << (64 * N - 1) {
            cs.l.class("|product| = 2^(BITS-1)");
        }
        if !fits {
            cs.l.class("mul_overflow");
        }
        // split_mul: magnitude (lo: N, hi: M limbs) and sign; the sign is unspecified for a zero magnitude
        let mag = from_big(&prod.magnitude().clone(), N + M);
        let neg = prod.is_negative();
        cs.l.form("Int::split_mul");
        match guard(|| ia.split_mul(&ib)) {
            Ok((lo, hi, ng)) => {
                let mut g = w(&lo);
                g.extend(w(&hi));
                let ok = g == mag && (prod.is_zero() || bool::from(ng) == neg);
                if !ok {
                    cs.group();
                    cs.check("Int::split_mul", "any", &Out::v2(&mag, neg as u64), Ok(Out::v2(&g, bool::from(ng) as u64)));
                }
            }
            Err(m) => cs.check("Int::split_mul", "any", &Out::v2(&mag, neg as u64), Err(m)),
        }
        cs.group();
        let ck = Out::opt(fits, &tc(&prod, N));
        chk!(cs, "Int:CheckedMul<Int>", &ck, iopt(CheckedMul::checked_mul(&ia, &ib)));
        cs.group();
        let pk = if fits { Out::v(&tc(&prod, N)) } else { Out::Panic };
        chk!(cs, "&Int*&Int", &pk, Out::v(&iw(&(&ia * &ib))));
        chk!(cs, "Int*Int", &pk, Out::v(&iw(&(ia * ib))));
        chk!(cs, "Int*&Int", &pk, Out::v(&iw(&(ia * &ib))));
        chk!(cs, "&Int*Int", &pk, Out::v(&iw(&(&ia * ib))));
        // Int x Uint: b's limbs read as unsigned
        let ub = u::<M>(b);
        let bu = BigInt::from(to_big(b));
        let pu = &sa * &bu;
        let mag_u = from_big(pu.magnitude(), N + M);
        cs.group();
        cs.l.form("Int::split_mul_uint");
        match guard(|| ia.split_mul_uint(&ub)) {
            Ok((lo, hi, ng)) => {
                let mut g = w(&lo);
                g.extend(w(&hi));
                if !(g == mag_u && (pu.is_zero() || bool::from(ng) == pu.is_negative())) {
                    cs.check("Int::split_mul_uint", "any", &Out::v2(&mag_u, pu.is_negative() as u64), Ok(Out::v2(&g, bool::from(ng) as u64)));
                }
            }
            Err(m) => cs.check("Int::split_mul_uint", "any", &Out::v(&mag_u), Err(m)),
        }
        cs.group();
        cs.l.form("Int::split_mul_uint_right");
        match guard(|| ia.split_mul_uint_right(&ub)) {
            Ok((lo, hi, ng)) => {
                // sizes reversed: lo has M limbs, hi has N limbs
                let mut g = w(&lo);
                g.extend(w(&hi));
                if !(g == mag_u && (pu.is_zero() || bool::from(ng) == pu.is_negative())) {
                    cs.check("Int::split_mul_uint_right", "any", &Out::v2(&mag_u, pu.is_negative() as u64), Ok(Out::v2(&g, bool::from(ng) as u64)));
                }
            }
            Err(m) => cs.check("Int::split_mul_uint_right", "any", &Out::v(&mag_u), Err(m)),
        }
        cs.group();
        let fits_u = in_range(&pu, N);
        chk!(cs, "Int:CheckedMul<Uint>", &Out::opt(fits_u, &tc(&pu, N)), iopt(CheckedMul::checked_mul(&ia, &ub)));
        cs.group();
        let pk = if fits_u { Out::v(&tc(&pu, N)) } else { Out::Panic };
        chk!(cs, "&Int*&Uint", &pk, Out::v(&iw(&(&ia * &ub))));
        chk!(cs, "Int*Uint", &pk, Out::v(&iw(&(ia * ub))));
        chk!(cs, "Int*&Uint", &pk, Out::v(&iw(&(ia * &ub))));
        chk!(cs, "&Int*Uint", &pk, Out::v(&iw(&(&ia * ub))));
        cs.group();
        // result stored in an Int of the rhs width
        chk!(cs, "Int::checked_mul_uint_right", &Out::opt(in_range(&pu, M), &tc(&pu, M)), iopt(ia.checked_mul_uint_right(&ub)));
        if let Some(f) = widen {
            match guard(|| f(&ia, &ib, &ub)) {
                Ok(rs) => {
                    cs.group();
                    cs.check("Int::widening_mul", "any", &Out::v(&tc(&prod, N + M)), Ok(Out::Val(rs[0].clone())));
                    cs.group();
                    cs.check("Int::widening_mul_uint", "any", &Out::v(&tc(&pu, N + M)), Ok(Out::Val(rs[1].clone())));
                }
                Err(m) => cs.check("Int::widening_mul", "any", &Out::v(&tc(&prod, N + M)), Err(m)),
            }
        }
    });
}

type SqFn<'a, const N: usize> = Option<&'a (dyn Fn(&Int<N>) -> Vec<u64> + Sync)>;

fn fam_eq<const N: usize>(ctx: &Ctx, sq: SqFn<N>) {
    let wname = format!("Int<{N}>");
    let vals = signed_values(N, ctx);
    let k = vals.len();
    if ctx.want("int_addsub") {
        ctx.par_for("int_addsub", &wname, k * k, |idx, l| {
            let (a, b) = (&vals[idx / k], &vals[idx % k]);
            let ins: [&[u64]; 2] = [a, b];
            let mut cs = Case::new(l, P, "int_addsub", &wname, &ins);
            let (ia, ib) = (i::<N>(a), i::<N>(b));
            let (sa, sb) = (sbig(a), sbig(b));
            cs.l.nontrivial += (!sa.is_zero() && !sb.is_zero()) as u64;
            let sum = &sa + &sb;
            let fits = in_range(&sum, N);
            if !fits {
                cs.l.class("add_overflow");
            }
            if sa == -&sb {
                cs.l.class("a = -b");
            }
            let sw = tc(&sum, N);
            chk!(cs, "Int::overflowing_add", &Out::v2(&sw, !fits as u64), {
                let (r, o) = ia.overflowing_add(&ib);
                Out::v2(&iw(&r), bool::from(o) as u64)
            });
            cs.group();
            let wr = Out::v(&sw);
            chk!(cs, "Int::wrapping_add", &wr, Out::v(&iw(&ia.wrapping_add(&ib))));
            chk!(cs, "Int:WrappingAdd", &wr, Out::v(&iw(&WrappingAdd::wrapping_add(&ia, &ib))));
            chk!(cs, "Wrapping<Int>+", &wr, Out::v(&iw(&(Wrapping(ia) + Wrapping(ib)).0)));
            chk!(cs, "Wrapping<Int>+=", &wr, {
                let mut x = Wrapping(ia);
                x += Wrapping(ib);
                Out::v(&iw(&x.0))
            });
            chk!(cs, "Wrapping<Int>+=&", &wr, {
                let mut x = Wrapping(ia);
                x += &Wrapping(ib);
                Out::v(&iw(&x.0))
            });
            cs.group();
            let ck = Out::opt(fits, &sw);
            chk!(cs, "Int::checked_add", &ck, icopt(ia.checked_add(&ib)));
            chk!(cs, "Int:CheckedAdd", &ck, iopt(CheckedAdd::checked_add(&ia, &ib)));
            chk!(cs, "Checked<Int>+", &ck, iopt((Checked::new(ia) + Checked::new(ib)).0));
            chk!(cs, "Checked<Int>+=", &ck, {
                let mut x = Checked::new(ia);
                x += Checked::new(ib);
                iopt(x.0)
            });
            chk!(cs, "Checked<Int>+=&", &ck, {
                let mut x = Checked::new(ia);
                x += &Checked::new(ib);
                iopt(x.0)
            });
            cs.group();
            let pk = if fits { Out::v(&sw) } else { Out::Panic };
            chk!(cs, "Int+Int", &pk, Out::v(&iw(&(ia + ib))));
            chk!(cs, "Int+&Int", &pk, Out::v(&iw(&(ia + &ib))));
            chk!(cs, "Int+=Int", &pk, {
                let mut x = ia;
                x += ib;
                Out::v(&iw(&x))
            });
            chk!(cs, "Int+=&Int", &pk, {
                let mut x = ia;
                x += &ib;
                Out::v(&iw(&x))
            });
            // subtraction
            let diff = &sa - &sb;
            let fits = in_range(&diff, N);
            if !fits {
                cs.l.class("sub_overflow");
            }
            let dw = tc(&diff, N);
            cs.group();
            let wr = Out::v(&dw);
            chk!(cs, "Int:WrappingSub", &wr, Out::v(&iw(&WrappingSub::wrapping_sub(&ia, &ib))));
            chk!(cs, "Wrapping<Int>-", &wr, Out::v(&iw(&(Wrapping(ia) - Wrapping(ib)).0)));
            chk!(cs, "Wrapping<Int>-=", &wr, {
                let mut x = Wrapping(ia);
                x -= Wrapping(ib);
                Out::v(&iw(&x.0))
            });
            chk!(cs, "Wrapping<Int>-=&", &wr, {
                let mut x = Wrapping(ia);
                x -= &Wrapping(ib);
                Out::v(&iw(&x.0))
            });
            cs.group();
            let ck = Out::opt(fits, &dw);
            chk!(cs, "Int:CheckedSub", &ck, iopt(CheckedSub::checked_sub(&ia, &ib)));
            chk!(cs, "Checked<Int>-", &ck, iopt((Checked::new(ia) - Checked::new(ib)).0));
            chk!(cs, "Checked<Int>-=", &ck, {
                let mut x = Checked::new(ia);
                x -= Checked::new(ib);
                iopt(x.0)
            });
            chk!(cs, "Checked<Int>-=&", &ck, {
                let mut x = Checked::new(ia);
                x -= &Checked::new(ib);
                iopt(x.0)
            });
            cs.group();
            let pk = if fits { Out::v(&dw) } else { Out::Panic };
            chk!(cs, "Int-Int", &pk, Out::v(&iw(&(ia - ib))));
            chk!(cs, "Int-&Int", &pk, Out::v(&iw(&(ia - &ib))));
            // Checked<Int> multiplication wrapper
            let prod = &sa * &sb;
            cs.group();
            let ck = Out::opt(in_range(&prod, N), &tc(&prod, N));
            chk!(cs, "Checked<Int>*", &ck, iopt((Checked::new(ia) * Checked::new(ib)).0));
            chk!(cs, "Checked<Int>*=", &ck, {
                let mut x = Checked::new(ia);
                x *= Checked::new(ib);
                iopt(x.0)
            });
            chk!(cs, "Checked<Int>*=&", &ck, {
                let mut x = Checked::new(ia);
                x *= &Checked::new(ib);
                iopt(x.0)
            });
        });
    }
    if ctx.want("int_unary") {
        // unary: a wider value set
        let mut un = vals.clone();
        un.extend(bits(N));
        let un = dedup(un);
        ctx.par_for("int_unary", &wname, un.len(), |idx, l| {
            let a = &un[idx];
            let ins: [&[u64]; 1] = [a];
            let mut cs = Case::new(l, P, "int_unary", &wname, &ins);
            let ia = i::<N>(a);
            let sa = sbig(a);
            let bits_ = 64 * N;
            let is_min = sa == -(BigInt::one() << (bits_ - 1));
            cs.l.nontrivial += sa.is_negative() as u64;
            if is_min {
                cs.l.class("MIN");
            }
            // MIN / MAX / sign / zero tests against the two's-complement value
            {
                let b = |v: bool| Out::Val(vec![v as u64]);
                let is_max = sa == (BigInt::one() << (bits_ - 1)) - 1;
                cs.group();
                chk!(cs, "Int::is_min", &b(is_min), b(bool::from(ia.is_min())));
                cs.group();
                chk!(cs, "Int::is_max", &b(is_max), b(bool::from(ia.is_max())));
                cs.group();
                chk!(cs, "Int::is_negative", &b(sa.is_negative()), b(bool::from(ia.is_negative())));
                cs.group();
                chk!(cs, "Int::is_positive", &b(sa.is_positive()), b(bool::from(ia.is_positive())));
                cs.group();
            }
            let ng = tc(&-&sa, N);
            chk!(cs, "Int::overflowing_neg", &Out::v2(&ng, is_min as u64), {
                let (r, o) = ia.overflowing_neg();
                Out::v2(&iw(&r), bool::from(o) as u64)
            });
            cs.group();
            chk!(cs, "Int::wrapping_neg", &Out::v(&ng), Out::v(&iw(&ia.wrapping_neg())));
            chk!(cs, "Int::wrapping_neg_if(true)", &Out::v(&ng), Out::v(&iw(&ia.wrapping_neg_if(ConstChoice::TRUE))));
            cs.group();
            chk!(cs, "Int::wrapping_neg_if(false)", &Out::v(a), Out::v(&iw(&ia.wrapping_neg_if(ConstChoice::FALSE))));
            cs.group();
            chk!(cs, "Int::checked_neg", &Out::opt(!is_min, &ng), icopt(ia.checked_neg()));
            // sign decomposition
            let mag = from_big(sa.magnitude(), N);
            cs.group();
            chk!(cs, "Int::abs", &Out::v(&mag), Out::v(&w(&ia.abs())));
            cs.group();
            chk!(cs, "Int::abs_sign", &Out::v2(&mag, sa.is_negative() as u64), {
                let (m, s) = ia.abs_sign();
                Out::v2(&w(&m), bool::from(s) as u64)
            });
            // reconstruction from (magnitude, sign): a's limbs read as an unsigned magnitude, both signs
            let um = to_big(a);
            for neg in [false, true] {
                cs.group();
                let v = if neg { -BigInt::from(um.clone()) } else { BigInt::from(um.clone()) };
                let ok = in_range(&v, N);
                if neg && um.is_zero() {
                    cs.l.class("negative zero input");
                }
                if neg && um == BigUint::one() << (bits_ - 1) {
                    cs.l.class("magnitude 2^(BITS-1) negative");
                }
                cs.extra = Some(format!("is_negative={neg}"));
                chk!(cs, "Int::new_from_abs_sign", &Out::opt(ok, &tc(&v, N)), icopt(Int::new_from_abs_sign(u::<N>(a), if neg { ConstChoice::TRUE } else { ConstChoice::FALSE })));
            }
            cs.extra = None;
            // squares return unsigned results
            let sqv = (&sa * &sa).to_biguint().unwrap();
            cs.group();
            chk!(cs, "Int::wrapping_square", &Out::v(&from_big(&sqv, N)), Out::v(&w(&ia.wrapping_square())));
            cs.group();
            chk!(cs, "Int::checked_square", &Out::opt(fits(&sqv, N), &from_big(&sqv, N)), ucopt(ia.checked_square()));
            cs.group();
            let sat = if fits(&sqv, N) { from_big(&sqv, N) } else { vec![MAX; N] };
            chk!(cs, "Int::saturating_square", &Out::v(&sat), Out::v(&w(&ia.saturating_square())));
            if let Some(f) = sq {
                cs.group();
                chk!(cs, "Int::widening_square", &Out::v(&from_big(&sqv, 2 * N)), Out::Val(f(&ia)));
            }
            // resizing: sign extension / truncation
            macro_rules! rs {
                ($t:literal) => {{
                    cs.group();
                    let e = tc(&sa, $t);
                    chk!(cs, concat!("Int::resize<", $t, ">"), &Out::v(&e), Out::v(&w(ia.resize::<$t>().as_uint())));
                    chk!(cs, concat!("From<&Int> for Int<", $t, ">"), &Out::v(&e), Out::v(&w(Int::<$t>::from(&ia).as_uint())));
                }};
            }
            rs!(1);
            rs!(2);
            rs!(3);
            rs!(4);
            rs!(5);
            rs!(8);
            rs!(17);
            let _ = Sign::Plus;
        });
    }
}

/// trait-level constants of the signed type (Constants / ConstZero / num_traits::Bounded-style routes) against two's complement
fn fam_constants(ctx: &Ctx) {
    if !ctx.want("int_constants") {
        return;
    }
    ctx.seq("int_constants", "Int<1,2,3,4,8,16>", |l| {
        macro_rules! consts {
            ($n:literal) => {{
                let ins: [&[u64]; 1] = [&[$n as u64]];
                let mut cs = Case::new(l, P, "int_constants", concat!("Int<", $n, ">"), &ins);
                cs.l.nontrivial += 1;
                let mut max = vec![u64::MAX; $n];
                max[$n - 1] = u64::MAX >> 1;
                let mut min = vec![0u64; $n];
                min[$n - 1] = 1 << 63;
                let mut one = vec![0u64; $n];
                one[0] = 1;
                chk!(cs, "Int::MAX", &Out::v(&max), Out::v(&iw(&Int::<$n>::MAX)));
                chk!(cs, "Int:Constants::MAX", &Out::v(&max), Out::v(&iw(&<Int<$n> as crypto_bigint::Constants>::MAX)));
                chk!(cs, "NonZero<Int>::MAX", &Out::v(&max), Out::v(&iw(crypto_bigint::NonZero::<Int<$n>>::MAX.as_ref())));
                cs.group();
                chk!(cs, "Int::ONE", &Out::v(&one), Out::v(&iw(&Int::<$n>::ONE)));
                chk!(cs, "Int:Constants::ONE", &Out::v(&one), Out::v(&iw(&<Int<$n> as crypto_bigint::Constants>::ONE)));
                chk!(cs, "NonZero<Int>::ONE", &Out::v(&one), Out::v(&iw(crypto_bigint::NonZero::<Int<$n>>::ONE.as_ref())));
                cs.group();
                chk!(cs, "Int::ZERO", &Out::v(&vec![0u64; $n]), Out::v(&iw(&Int::<$n>::ZERO)));
                chk!(cs, "Int:ConstZero::ZERO", &Out::v(&vec![0u64; $n]), Out::v(&iw(&<Int<$n> as crypto_bigint::ConstZero>::ZERO)));
                cs.group();
                chk!(cs, "Int::MIN", &Out::v(&min), Out::v(&iw(&Int::<$n>::MIN)));
                cs.group();
                chk!(cs, "Int::MINUS_ONE", &Out::v(&vec![u64::MAX; $n]), Out::v(&iw(&Int::<$n>::MINUS_ONE)));
            }};
        }
        consts!(1);
        consts!(2);
        consts!(3);
        consts!(4);
        consts!(8);
        consts!(16);
    });
}

fn fam_prims(ctx: &Ctx) {
    if !ctx.want("int_from") {
        return;
    }
    // primitives: every value of a structured i128 set, into several widths
    let mut ps: Vec<i128> = vec![0, 1, -1, 2, -2, i128::MIN, i128::MAX, i128::MIN + 1, i128::MAX - 1];
    for j in 0..127 {
        ps.extend([1i128 << j, -(1i128 << j), (1i128 << j) - 1, -(1i128 << j) - 1]);
    }
    ps.sort();
    ps.dedup();
    ctx.par_for("int_from", "i8..i128", ps.len(), |idx, l| {
        let p = ps[idx];
        let pl = [p as u64, (p >> 64) as u64];
        let ins: [&[u64]; 1] = [&pl];
        let mut cs = Case::new(l, P, "int_from", "i8..i128", &ins);
        cs.l.nontrivial += (p < 0) as u64;
        macro_rules! from_all {
            ($n:literal) => {{
                let e = |v: i128| Out::v(&tc(&BigInt::from(v), $n));
                cs.group();
                chk!(cs, concat!("Int<", $n, ">::from_i8"), &e(p as i8 as i128), Out::v(&iw(&Int::<$n>::from_i8(p as i8))));
                chk!(cs, concat!("Int<", $n, ">:From<i8>"), &e(p as i8 as i128), Out::v(&iw(&Int::<$n>::from(p as i8))));
                cs.group();
                chk!(cs, concat!("Int<", $n, ">::from_i16"), &e(p as i16 as i128), Out::v(&iw(&Int::<$n>::from_i16(p as i16))));
                chk!(cs, concat!("Int<", $n, ">:From<i16>"), &e(p as i16 as i128), Out::v(&iw(&Int::<$n>::from(p as i16))));
                cs.group();
                chk!(cs, concat!("Int<", $n, ">::from_i32"), &e(p as i32 as i128), Out::v(&iw(&Int::<$n>::from_i32(p as i32))));
                chk!(cs, concat!("Int<", $n, ">:From<i32>"), &e(p as i32 as i128), Out::v(&iw(&Int::<$n>::from(p as i32))));
                cs.group();
                chk!(cs, concat!("Int<", $n, ">::from_i64"), &e(p as i64 as i128), Out::v(&iw(&Int::<$n>::from_i64(p as i64))));
                chk!(cs, concat!("Int<", $n, ">:From<i64>"), &e(p as i64 as i128), Out::v(&iw(&Int::<$n>::from(p as i64))));
            }};
        }
        macro_rules! from_128 {
            ($n:literal) => {{
                cs.group();
                let e = Out::v(&tc(&BigInt::from(p), $n));
                chk!(cs, concat!("Int<", $n, ">::from_i128"), &e, Out::v(&iw(&Int::<$n>::from_i128(p))));
                chk!(cs, concat!("Int<", $n, ">:From<i128>"), &e, Out::v(&iw(&Int::<$n>::from(p))));
            }};
        }
        from_all!(1);
        from_all!(2);
        from_all!(3);
        from_all!(4);
        from_all!(8);
        from_128!(2);
        from_128!(3);
        from_128!(4);
        from_128!(8);
        from_128!(16);
        cs.group();
        chk!(cs, "i64:From<I64>", &Out::Val(vec![p as i64 as u64]), Out::Val(vec![i64::from(I64::from_i64(p as i64)) as u64]));
        cs.group();
        chk!(cs, "i128:From<I128>", &Out::Val(vec![p as u64, (p >> 64) as u64]), {
            let r = i128::from(I128::from_i128(p));
            Out::Val(vec![r as u64, (r >> 64) as u64])
        });
    });
}

macro_rules! widen {
    ($n:literal, $m:literal) => {
        Some(&|a: &Int<$n>, b: &Int<$m>, ub: &Uint<$m>| -> Vec<Vec<u64>> { vec![w(a.widening_mul(b).as_uint()), w(a.widening_mul_uint(ub).as_uint())] })
    };
}
macro_rules! sqw {
    ($n:literal) => {
        Some(&|a: &Int<$n>| -> Vec<u64> { w(&a.widening_square()) })
    };
}

fn main() {
    let ctx = Ctx::from_args(P, "exploration");
    ctx.section_cap.store(6_000_000, std::sync::atomic::Ordering::Relaxed);
    ctx.set_rule("E1: complete pair products of the signed alphabet {MIN,MIN+1,-1,0,1,MAX,MAX-1,+-2^(BITS/2),+-2^j,+-2^j-1 for every j} u FULL(n<=2,L9) u RUNS(n,L5,2-3) reinterpreted as two's complement, \
        Int<1,2,3,4,8,16> and mixed widths for multiplication/resizing; every form; oracle: BigInt. Non-trivial: both operands non-zero (unary: negative input).");
    ctx.assume("limb values outside the stated alphabets are not explored; oracle = num-bigint BigInt");
    let ctx = &ctx;
    fam_prims(ctx);
    fam_constants(ctx);
    fam_eq::<1>(ctx, sqw!(1));
    fam_eq::<2>(ctx, sqw!(2));
    fam_eq::<3>(ctx, sqw!(3));
    fam_eq::<4>(ctx, sqw!(4));
    fam_eq::<8>(ctx, sqw!(8));
    fam_eq::<16>(ctx, sqw!(16));
    fam_pair::<1, 1>(ctx, widen!(1, 1));
    fam_pair::<2, 2>(ctx, widen!(2, 2));
    fam_pair::<3, 3>(ctx, widen!(3, 3));
    fam_pair::<4, 4>(ctx, widen!(4, 4));
    fam_pair::<8, 8>(ctx, widen!(8, 8));
    fam_pair::<16, 16>(ctx, widen!(16, 16));
    fam_pair::<1, 2>(ctx, widen!(1, 2));
    fam_pair::<2, 1>(ctx, widen!(2, 1));
    fam_pair::<2, 4>(ctx, widen!(2, 4));
    fam_pair::<4, 2>(ctx, widen!(4, 2));
    fam_pair::<3, 5>(ctx, widen!(3, 5));
    fam_pair::<4, 8>(ctx, widen!(4, 8));
    fam_pair::<8, 4>(ctx, widen!(8, 4));
    std::process::exit(ctx.finish());
}
