//! C06 — comparison, equality, hashing and conditional selection are mutually coherent (engine E1).
use crypto_bigint::subtle::{
    Choice, ConditionallyNegatable, ConditionallySelectable, ConstantTimeEq, ConstantTimeGreater, ConstantTimeLess,
};
use crypto_bigint::{
    BoxedUint, Checked, ConstantTimeSelect, Int, Integer, Limb, NonZero, Odd, Uint, Wrapping, Zero,
};
use std::cmp::Ordering;
use std::hash::{Hash, Hasher};
use vcommon::*;

const P: &str = "C06";

fn ord_code(o: Ordering) -> u64 {
    match o {
        Ordering::Less => 0,
        Ordering::Equal => 1,
        Ordering::Greater => 2,
    }
}
fn b(x: bool) -> Out {
    Out::Val(vec![x as u64])
}
fn c(x: Choice) -> Out {
    Out::Val(vec![bool::from(x) as u64])
}
fn o(x: Ordering) -> Out {
    Out::Val(vec![ord_code(x)])
}

struct Fnv(u64, u64);
impl Hasher for Fnv {
    fn finish(&self) -> u64 {
        self.0 ^ self.1.wrapping_mul(0x9E37_79B9_7F4A_7C15)
    }
    fn write(&mut self, bytes: &[u8]) {
        for &x in bytes {
            self.0 = (self.0 ^ x as u64).wrapping_mul(0x100_0000_01b3);
        }
        self.1 += bytes.len() as u64 + 1;
    }
}
fn hashes<T: Hash>(x: &T) -> (u64, u64) {
    let mut h1 = std::collections::hash_map::DefaultHasher::new();
    x.hash(&mut h1);
    let mut h2 = Fnv(0xcbf2_9ce4_8422_2325, 0);
    x.hash(&mut h2);
    (h1.finish(), h2.finish())
}

macro_rules! chk {
    ($cs:expr, $name:expr, $exp:expr, $e:expr) => {
        $cs.check($name, "any", $exp, guard(|| $e))
    };
}

fn pair_values(n: usize, ctx: &Ctx) -> Vec<Limbs> {
    let th = ctx.thorough();
    let mut v = if th {
        // thorough: larger alphabets (complete products up to 4 limbs), three-run patterns over L9 above
        match n {
            1 | 2 => full(n, &l13(ctx.seed)),
            3 => full(n, &l9()),
            4 => {
                let mut v = full(n, &l5());
                v.extend(runs(n, &l9(), 3));
                v
            }
            _ => runs(n, &l9(), 3),
        }
    } else if n <= 2 {
        full(n, &l9())
    } else {
        runs(n, &l5(), 3)
    };
    // differ only in the lowest limb / only in the highest limb / only in the sign bit; MIN, MAX
    let (g1, _) = generic_limbs(ctx.seed);
    let base: Limbs = (0..n).map(|i| g1.rotate_left(i as u32)).collect();
    v.push(base.clone());
    let mut t = base.clone();
    t[0] ^= 1;
    v.push(t);
    let mut t = base.clone();
    t[n - 1] ^= 1;
    v.push(t);
    let mut t = base.clone();
    t[n - 1] ^= TOP;
    v.push(t);
    let mut mn = vec![0u64; n];
    mn[n - 1] = TOP;
    v.push(mn);
    let mut mx = vec![MAX; n];
    mx[n - 1] = TOP - 1;
    v.push(mx);
    let v = dedup(v);
    if th { thin(v, 5500) } else { thin(v, 1000) }
}

fn signed_cmp(a: &[u64], b_: &[u64]) -> Ordering {
    let n = a.len();
    let (sa, sb) = (a[n - 1] >> 63, b_[n - 1] >> 63);
    if sa != sb {
        return if sa == 1 { Ordering::Less } else { Ordering::Greater };
    }
    to_big(a).cmp(&to_big(b_))
}

fn fam_uint<const N: usize>(ctx: &Ctx) {
    let vals = pair_values(N, ctx);
    let k = vals.len();
    let wname = format!("Uint<{N}>");
    if ctx.want("uint_cmp") {
        ctx.par_for("uint_cmp", &wname, k * k, |i, l| {
            let (a, b_) = (&vals[i / k], &vals[i % k]);
            let ins: [&[u64]; 2] = [a, b_];
            let mut cs = Case::new(l, P, "uint_cmp", &wname, &ins);
            let (ua, ub) = (u::<N>(a), u::<N>(b_));
            let ord = to_big(a).cmp(&to_big(b_));
            cs.l.nontrivial += (ord != Ordering::Equal) as u64;
            if ord == Ordering::Equal {
                cs.l.class("a==b");
            }
            let eo = o(ord);
            chk!(cs, "Uint:Ord::cmp", &eo, o(ua.cmp(&ub)));
            chk!(cs, "Uint:PartialOrd::partial_cmp", &eo, o(ua.partial_cmp(&ub).unwrap()));
            chk!(cs, "Uint::cmp_vartime", &eo, o(ua.cmp_vartime(&ub)));
            cs.group();
            let e = b(ord == Ordering::Equal);
            chk!(cs, "Uint:ct_eq", &e, c(ua.ct_eq(&ub)));
            chk!(cs, "Uint==", &e, b(ua == ub));
            chk!(cs, "!(Uint!=)", &e, b(!(ua != ub)));
            chk!(cs, "!Uint:ct_ne", &e, c(!ua.ct_ne(&ub)));
            cs.group();
            let e = b(ord == Ordering::Less);
            chk!(cs, "Uint:ct_lt", &e, c(ua.ct_lt(&ub)));
            chk!(cs, "Uint<", &e, b(ua < ub));
            chk!(cs, "!(Uint>=)", &e, b(!(ua >= ub)));
            cs.group();
            let e = b(ord == Ordering::Greater);
            chk!(cs, "Uint:ct_gt", &e, c(ua.ct_gt(&ub)));
            chk!(cs, "Uint>", &e, b(ua > ub));
            chk!(cs, "!(Uint<=)", &e, b(!(ua <= ub)));
            // equal values hash equally (two hashers)
            if ord == Ordering::Equal {
                cs.assert("Uint:Hash", "any", hashes(&ua) == hashes(&ub), || ("equal hashes".into(), "different hashes".into()));
            }
            // comparisons against Odd<Uint>
            if b_[0] & 1 == 1 {
                let ob: Odd<Uint<N>> = Odd::new(ub).unwrap();
                cs.group();
                chk!(cs, "Uint==Odd<Uint>", &b(ord == Ordering::Equal), b(ua == ob));
                cs.group();
                chk!(cs, "Uint:partial_cmp(Odd<Uint>)", &eo, o(ua.partial_cmp(&ob).unwrap()));
                if a[0] & 1 == 1 {
                    let oa: Odd<Uint<N>> = Odd::new(ua).unwrap();
                    chk!(cs, "Odd<Uint>:cmp", &eo, o(oa.cmp(&ob)));
                }
            }
            if !is_zero(a) && !is_zero(b_) {
                let (na, nb) = (NonZero::new(ua).unwrap(), NonZero::new(ub).unwrap());
                cs.group();
                chk!(cs, "NonZero<Uint>:cmp", &eo, o(na.cmp(&nb)));
                cs.group();
                chk!(cs, "NonZero<Uint>==", &b(ord == Ordering::Equal), b(na == nb));
            }
            cs.group();
            chk!(cs, "Wrapping<Uint>:ct_eq", &b(ord == Ordering::Equal), c(Wrapping(ua).ct_eq(&Wrapping(ub))));
            chk!(cs, "Checked<Uint>:ct_eq", &b(ord == Ordering::Equal), c(Checked::new(ua).ct_eq(&Checked::new(ub))));

            // ---- Int: same limbs read as two's complement
            let (ia, ib): (Int<N>, Int<N>) = (ua.as_int(), ub.as_int());
            let sord = signed_cmp(a, b_);
            if (a[N - 1] ^ b_[N - 1]) >> 63 == 1 {
                cs.l.class("signs differ");
            }
            cs.group();
            let eo = o(sord);
            chk!(cs, "Int:Ord::cmp", &eo, o(ia.cmp(&ib)));
            chk!(cs, "Int:partial_cmp", &eo, o(ia.partial_cmp(&ib).unwrap()));
            chk!(cs, "Int::cmp_vartime", &eo, o(ia.cmp_vartime(&ib)));
            cs.group();
            let e = b(sord == Ordering::Equal);
            chk!(cs, "Int:ct_eq", &e, c(ia.ct_eq(&ib)));
            chk!(cs, "Int==", &e, b(ia == ib));
            cs.group();
            let e = b(sord == Ordering::Less);
            chk!(cs, "Int:ct_lt", &e, c(ia.ct_lt(&ib)));
            chk!(cs, "Int<", &e, b(ia < ib));
            cs.group();
            let e = b(sord == Ordering::Greater);
            chk!(cs, "Int:ct_gt", &e, c(ia.ct_gt(&ib)));
            chk!(cs, "Int>", &e, b(ia > ib));
            if sord == Ordering::Equal {
                cs.assert("Int:Hash", "any", hashes(&ia) == hashes(&ib), || ("equal hashes".into(), "different hashes".into()));
            }

            // ---- selection: bit-identical to the chosen operand for both choice values
            for ch in [0u8, 1] {
                let want = if ch == 1 { b_ } else { a };
                let e = Out::v(want);
                let cc = Choice::from(ch);
                cs.group();
                chk!(cs, "Uint::conditional_select", &e, Out::v(&w(&Uint::conditional_select(&ua, &ub, cc))));
                chk!(cs, "Uint:ct_select", &e, Out::v(&w(&<Uint<N> as ConstantTimeSelect>::ct_select(&ua, &ub, cc))));
                chk!(cs, "Uint:conditional_assign", &e, {
                    let mut x = ua;
                    x.conditional_assign(&ub, cc);
                    Out::v(&w(&x))
                });
                chk!(cs, "Uint:ct_assign", &e, {
                    let mut x = ua;
                    ConstantTimeSelect::ct_assign(&mut x, &ub, cc);
                    Out::v(&w(&x))
                });
                chk!(cs, "Int::conditional_select", &e, Out::v(&w(Int::conditional_select(&ia, &ib, cc).as_uint())));
                chk!(cs, "Wrapping<Uint>::conditional_select", &e, Out::v(&w(&Wrapping::conditional_select(&Wrapping(ua), &Wrapping(ub), cc).0)));
                chk!(cs, "Checked<Uint>::conditional_select", &e, {
                    let r = Checked::conditional_select(&Checked::new(ua), &Checked::new(ub), cc);
                    match Option::<Uint<N>>::from(r.0) {
                        Some(x) => Out::v(&w(&x)),
                        None => Out::None,
                    }
                });
                // swap: both outputs
                cs.group();
                let mut both = if ch == 1 { b_.clone() } else { a.clone() };
                both.extend_from_slice(if ch == 1 { a } else { b_ });
                let es = Out::v(&both);
                chk!(cs, "Uint::conditional_swap", &es, {
                    let (mut x, mut y) = (ua, ub);
                    Uint::conditional_swap(&mut x, &mut y, cc);
                    let mut v = w(&x);
                    v.extend(w(&y));
                    Out::Val(v)
                });
                chk!(cs, "Uint:ct_swap", &es, {
                    let (mut x, mut y) = (ua, ub);
                    ConstantTimeSelect::ct_swap(&mut x, &mut y, cc);
                    let mut v = w(&x);
                    v.extend(w(&y));
                    Out::Val(v)
                });
                if !is_zero(a) && !is_zero(b_) {
                    cs.group();
                    chk!(cs, "NonZero<Uint>::conditional_select", &e, {
                        let r = NonZero::conditional_select(&NonZero::new(ua).unwrap(), &NonZero::new(ub).unwrap(), cc);
                        Out::v(&w(r.as_ref()))
                    });
                }
                if a[0] & 1 == 1 && b_[0] & 1 == 1 {
                    cs.group();
                    chk!(cs, "Odd<Uint>::conditional_select", &e, {
                        let r = Odd::conditional_select(&Odd::new(ua).unwrap(), &Odd::new(ub).unwrap(), cc);
                        Out::v(&w(r.as_ref()))
                    });
                }
            }
            // ---- unary predicates (once per a)
            if i % k == 0 {
                let za = is_zero(a);
                cs.group();
                chk!(cs, "Uint:Zero::is_zero", &b(za), c(Zero::is_zero(&ua)));
                chk!(cs, "Uint:num_traits::Zero::is_zero", &b(za), b(num_traits::Zero::is_zero(&ua)));
                chk!(cs, "!Uint::to_nz().is_some", &b(za), b(!bool::from(ua.to_nz().is_some())));
                chk!(cs, "NonZero::new(Uint).is_none", &b(za), c(NonZero::new(ua).is_none()));
                cs.group();
                let one = a[0] == 1 && a[1..].iter().all(|&x| x == 0);
                chk!(cs, "Uint:num_traits::One::is_one", &b(one), b(num_traits::One::is_one(&ua)));
                cs.group();
                let odd = a[0] & 1 == 1;
                chk!(cs, "Uint:Integer::is_odd", &b(odd), c(Integer::is_odd(&ua)));
                chk!(cs, "!Uint:Integer::is_even", &b(odd), c(!Integer::is_even(&ua)));
                chk!(cs, "Uint::to_odd().is_some", &b(odd), b(bool::from(ua.to_odd().is_some())));
                chk!(cs, "Odd::new(Uint).is_some", &b(odd), c(Odd::new(ua).is_some()));
                // ConstCtOption::unwrap_or: value when some, default otherwise
                cs.group();
                let def = u::<N>(&vec![0x77; N]);
                let shifted = ua.overflowing_shl(1);
                chk!(cs, "ConstCtOption<Uint>::unwrap_or(some)", &Out::v(&w(&ua.wrapping_shl(1))), Out::v(&w(&shifted.unwrap_or(def))));
                cs.group();
                chk!(cs, "ConstCtOption<Uint>::unwrap_or(none)", &Out::v(&vec![0x77; N]), Out::v(&w(&ua.overflowing_shl(64 * N as u32).unwrap_or(def))));
                cs.group();
                chk!(cs, "ConstCtOption::is_some/is_none", &Out::Val(vec![1, 0, 0, 1]), {
                    let s = ua.overflowing_shl(1);
                    let n_ = ua.overflowing_shl(64 * N as u32);
                    Out::Val(vec![bool::from(s.is_some()) as u64, bool::from(s.is_none()) as u64, bool::from(n_.is_some()) as u64, bool::from(n_.is_none()) as u64])
                });
                // Int predicates
                let neg = a[N - 1] >> 63 == 1;
                cs.group();
                chk!(cs, "Int::is_negative", &b(neg), b(bool::from(ia.is_negative())));
                cs.group();
                chk!(cs, "Int::is_positive", &b(!neg && !za), b(bool::from(ia.is_positive())));
                cs.group();
                let is_min = a[N - 1] == TOP && a[..N - 1].iter().all(|&x| x == 0);
                chk!(cs, "Int::is_min", &b(is_min), b(bool::from(ia.is_min())));
                cs.group();
                let is_max = a[N - 1] == TOP - 1 && a[..N - 1].iter().all(|&x| x == MAX);
                chk!(cs, "Int::is_max", &b(is_max), b(bool::from(ia.is_max())));
                cs.group();
                chk!(cs, "Int:Zero::is_zero", &b(za), c(Zero::is_zero(&ia)));
            }
        });
    }
}

fn fam_limb(ctx: &Ctx) {
    if !ctx.want("limb_cmp") {
        return;
    }
    let al = l13(ctx.seed);
    let k = al.len();
    ctx.par_for("limb_cmp", "Limb", k * k, |i, l| {
        let (x, y) = (al[i / k], al[i % k]);
        let (xa, ya) = ([x], [y]);
        let ins: [&[u64]; 2] = [&xa, &ya];
        let mut cs = Case::new(l, P, "limb_cmp", "Limb", &ins);
        let (la, lb) = (Limb(x), Limb(y));
        let ord = x.cmp(&y);
        cs.l.nontrivial += (x != y) as u64;
        let eo = o(ord);
        chk!(cs, "Limb:Ord::cmp", &eo, o(la.cmp(&lb)));
        chk!(cs, "Limb:partial_cmp", &eo, o(la.partial_cmp(&lb).unwrap()));
        chk!(cs, "Limb::cmp_vartime", &eo, o(la.cmp_vartime(&lb)));
        cs.group();
        let e = b(x == y);
        chk!(cs, "Limb:ct_eq", &e, c(la.ct_eq(&lb)));
        chk!(cs, "!Limb:ct_ne", &e, c(!la.ct_ne(&lb)));
        chk!(cs, "Limb==", &e, b(la == lb));
        chk!(cs, "Limb::eq_vartime", &e, b(la.eq_vartime(&lb)));
        cs.group();
        chk!(cs, "Limb:ct_lt", &b(x < y), c(la.ct_lt(&lb)));
        chk!(cs, "Limb<", &b(x < y), b(la < lb));
        cs.group();
        chk!(cs, "Limb:ct_gt", &b(x > y), c(la.ct_gt(&lb)));
        chk!(cs, "Limb>", &b(x > y), b(la > lb));
        if x == y {
            cs.assert("Limb:Hash", "any", hashes(&la) == hashes(&lb), || ("eq".into(), "ne".into()));
        }
        for ch in [0u8, 1] {
            cs.group();
            let want = if ch == 1 { y } else { x };
            chk!(cs, "Limb::conditional_select", &Out::Val(vec![want]), Out::Val(vec![Limb::conditional_select(&la, &lb, Choice::from(ch)).0]));
        }
        if i % k == 0 {
            cs.group();
            chk!(cs, "Limb::is_odd", &b(x & 1 == 1), c(la.is_odd()));
            cs.group();
            chk!(cs, "Limb:Zero::is_zero", &b(x == 0), c(Zero::is_zero(&la)));
            chk!(cs, "Limb::to_nz().is_none", &b(x == 0), b(bool::from(la.to_nz().is_none())));
        }
    });
}

fn boxed_values(n: usize, ctx: &Ctx) -> Vec<Limbs> {
    let mut v = match (ctx.thorough(), n) {
        (true, 1 | 2) => full(n, &l9()),
        (true, _) => thin(runs(n, &l9(), 3), 700),
        (false, 1 | 2) => full(n, &l5()),
        (false, _) => runs(n, &l5(), 2),
    };
    let (g1, _) = generic_limbs(ctx.seed);
    v.push((0..n).map(|i| if i == 0 { g1 } else { 0 }).collect()); // zero-padded small value
    v.push((0..n).map(|i| g1.rotate_left(i as u32)).collect());
    dedup(v)
}

/// Montgomery parameter sets and forms over DIFFERENT moduli: selection returns the chosen operand in every field
/// (derived == and the Debug rendering see all fields), ct_eq / ct_ne agree with ==; Reciprocal selection likewise.
fn fam_monty_select<const N: usize>(ctx: &Ctx) {
    use crypto_bigint::modular::{MontyForm, MontyParams};
    let fam = "monty_select";
    if !ctx.want(fam) {
        return;
    }
    let wname = format!("MontyForm<{N}>");
    let bits_ = 64 * N;
    let ms: Vec<num_bigint::BigUint> = vec![
        num_bigint::BigUint::from(3u32),
        num_bigint::BigUint::from(0x65u32),
        pow2(bits_) - 1u32,
        pow2(bits_ - 1) + 1u32,
        (pow2(bits_) / 3u32) | num_bigint::BigUint::from(1u32),
        pow2(63) + 1u32,
        pow2(64) - 1u32,
    ]
    .into_iter()
    .filter(|m| m.bits() as usize <= bits_)
    .collect();
    let raws: Vec<u64> = vec![0, 1, 2];
    let k = ms.len();
    ctx.par_for(fam, &wname, k * k, |i, l| {
        let (mp, mq) = (&ms[i / k], &ms[i % k]);
        let (lp, lq) = (from_big(mp, N), from_big(mq, N));
        let ins: [&[u64]; 2] = [&lp, &lq];
        let mut cs = Case::new(l, P, fam, &wname, &ins);
        cs.l.nontrivial += (mp != mq) as u64;
        let pp = MontyParams::<N>::new_vartime(Odd::new(u::<N>(&lp)).unwrap());
        let pq = MontyParams::<N>::new_vartime(Odd::new(u::<N>(&lq)).unwrap());
        let b = |v: bool| Out::Val(vec![v as u64]);
        for ch in [0u8, 1] {
            let c = Choice::from(ch);
            let want = if ch == 0 { pp } else { pq };
            cs.group();
            chk!(cs, "MontyParams::conditional_select (== chosen)", &b(true), b(MontyParams::conditional_select(&pp, &pq, c) == want));
            chk!(cs, "MontyParams::conditional_select (Debug == chosen)", &b(true), b(format!("{:?}", MontyParams::conditional_select(&pp, &pq, c)) == format!("{want:?}")));
            chk!(cs, "MontyParams::conditional_assign (== chosen)", &b(true), b({
                let mut t = pp;
                t.conditional_assign(&pq, c);
                t == want
            }));
        }
        cs.group();
        chk!(cs, "MontyParams::ct_eq == (==)", &b(pp == pq), b(bool::from(pp.ct_eq(&pq))));
        for &ra in &raws {
            for &rb in &raws {
                if num_bigint::BigUint::from(ra) >= *mp || num_bigint::BigUint::from(rb) >= *mq {
                    continue;
                }
                let x = MontyForm::from_montgomery(u::<N>(&resize(&[ra], N)), pp);
                let y = MontyForm::from_montgomery(u::<N>(&resize(&[rb], N)), pq);
                cs.group();
                chk!(cs, "MontyForm::ct_eq == (==)", &b(x == y), b(bool::from(x.ct_eq(&y))));
                cs.group();
                chk!(cs, "MontyForm::ct_ne == (!=)", &b(x != y), b(bool::from(x.ct_ne(&y))));
                for ch in [0u8, 1] {
                    let c = Choice::from(ch);
                    let want = if ch == 0 { x } else { y };
                    cs.group();
                    chk!(cs, "MontyForm::conditional_select (== chosen)", &b(true), b(MontyForm::conditional_select(&x, &y, c) == want));
                    chk!(cs, "MontyForm::conditional_select (Debug == chosen)", &b(true), b(format!("{:?}", MontyForm::conditional_select(&x, &y, c)) == format!("{want:?}")));
                    chk!(cs, "MontyForm::conditional_assign (== chosen)", &b(true), b({
                        let mut t = x;
                        t.conditional_assign(&y, c);
                        t == want
                    }));
                    chk!(cs, "MontyForm::conditional_swap (both == expected)", &b(true), b({
                        let (mut s1, mut s2) = (x, y);
                        MontyForm::conditional_swap(&mut s1, &mut s2, c);
                        if ch == 0 { s1 == x && s2 == y } else { s1 == y && s2 == x }
                    }));
                }
            }
        }
        // Reciprocal of the low limbs of the two moduli: selection must carry every field of the chosen one
        let (d1, d2) = (lp[0] | 1, lq[0] | 1);
        let r1 = crypto_bigint::Reciprocal::new(NonZero::new(Limb(d1)).unwrap());
        let r2 = crypto_bigint::Reciprocal::new(NonZero::new(Limb(d2)).unwrap());
        for ch in [0u8, 1] {
            let want = if ch == 0 { r1 } else { r2 };
            cs.group();
            chk!(cs, "Reciprocal::conditional_select (== chosen)", &b(true), b(crypto_bigint::Reciprocal::conditional_select(&r1, &r2, Choice::from(ch)) == want));
            // and it still divides by the chosen divisor (a different statement: its own group)
            cs.group();
            let dv = if ch == 0 { d1 } else { d2 };
            let a = u::<N>(&vec![MAX; N]);
            let sel = crypto_bigint::Reciprocal::conditional_select(&r1, &r2, Choice::from(ch));
            chk!(cs, "div_rem_limb_with_reciprocal(selected)", &Out::Val(vec![(to_big(&vec![MAX; N]) % dv).to_u64_digits().first().copied().unwrap_or(0)]), Out::Val(vec![a.div_rem_limb_with_reciprocal(&sel).1.0]));
        }
    });
}

fn fam_boxed(ctx: &Ctx) {
    if !ctx.want("boxed_cmp") {
        return;
    }
    let lens: Vec<usize> = if ctx.thorough() { (1..=12).collect() } else { (1..=6).collect() };
    let sets: Vec<Vec<Limbs>> = (0..=12).map(|n| if n == 0 { vec![] } else { boxed_values(n, ctx) }).collect();
    for &la in &lens {
        for &lb in &lens {
            let (sa, sb) = (&sets[la], &sets[lb]);
            let k = sb.len();
            let wname = format!("Boxed<{la}>x<{lb}>");
            ctx.par_for("boxed_cmp", &wname, sa.len() * k, |i, l| {
                let (a, b_) = (&sa[i / k], &sb[i % k]);
                let ins: [&[u64]; 2] = [a, b_];
                let mut cs = Case::new(l, P, "boxed_cmp", &wname, &ins);
                let (xa, xb) = (bx(a), bx(b_));
                let ord = to_big(a).cmp(&to_big(b_));
                cs.l.nontrivial += (ord != Ordering::Equal) as u64;
                let mixed = la != lb;
                let cls = if mixed { "different_precision" } else { "same_precision" };
                if mixed && ord == Ordering::Equal {
                    cs.l.class("zero-padded equal values of different precision");
                }
                let eo = o(ord);
                cs.check("Boxed:Ord::cmp", cls, &eo, guard(|| o(xa.cmp(&xb))));
                cs.check("Boxed:partial_cmp", cls, &eo, guard(|| o(xa.partial_cmp(&xb).unwrap())));
                cs.check("Boxed::cmp_vartime", cls, &eo, guard(|| o(xa.cmp_vartime(&xb))));
                cs.group();
                let e = b(ord == Ordering::Equal);
                cs.check("Boxed:ct_eq", cls, &e, guard(|| c(xa.ct_eq(&xb))));
                cs.check("Boxed==", cls, &e, guard(|| b(xa == xb)));
                cs.group();
                cs.check("Boxed:ct_lt", cls, &b(ord == Ordering::Less), guard(|| c(xa.ct_lt(&xb))));
                cs.check("Boxed<", cls, &b(ord == Ordering::Less), guard(|| b(xa < xb)));
                cs.group();
                cs.check("Boxed:ct_gt", cls, &b(ord == Ordering::Greater), guard(|| c(xa.ct_gt(&xb))));
                cs.check("Boxed>", cls, &b(ord == Ordering::Greater), guard(|| b(xa > xb)));
                // values that compare equal hash equally
                if guard(|| xa == xb) == Ok(true) {
                    cs.l.form("Boxed:Hash");
                    if hashes(&xa) != hashes(&xb) {
                        let f = failure(&[P], "boxed_cmp", "Boxed:Hash", cls, wname.clone(), vec![hex(a), hex(b_)],
                            "a == b implies hash(a) == hash(b)".into(), "a == b but the hashes differ".into());
                        cs.l.fail(f);
                    }
                }
                if b_[0] & 1 == 1 {
                    let ob = Odd::new(xb.clone()).unwrap();
                    cs.group();
                    cs.check("Boxed==Odd<Boxed>", cls, &b(ord == Ordering::Equal), guard(|| b(xa == ob)));
                    cs.group();
                    cs.check("Boxed:partial_cmp(Odd<Boxed>)", cls, &eo, guard(|| o(xa.partial_cmp(&ob).unwrap())));
                }
                // selection: equal precisions (precondition of the boxed selectors)
                if !mixed {
                    for ch in [0u8, 1] {
                        let cc = Choice::from(ch);
                        let want = if ch == 1 { b_ } else { a };
                        cs.group();
                        chk!(cs, "Boxed:ct_select", &Out::v(want), Out::v(&bw(&BoxedUint::ct_select(&xa, &xb, cc))));
                        chk!(cs, "Boxed:ct_assign", &Out::v(want), {
                            let mut x = xa.clone();
                            x.ct_assign(&xb, cc);
                            Out::v(&bw(&x))
                        });
                        cs.group();
                        let mut both = if ch == 1 { b_.clone() } else { a.clone() };
                        both.extend_from_slice(if ch == 1 { a } else { b_ });
                        chk!(cs, "Boxed:ct_swap", &Out::v(&both), {
                            let (mut x, mut y) = (xa.clone(), xb.clone());
                            BoxedUint::ct_swap(&mut x, &mut y, cc);
                            let mut v = bw(&x);
                            v.extend(bw(&y));
                            Out::Val(v)
                        });
                        if i % k == 0 {
                            cs.group();
                            let neg = from_big(&((pow2(64 * la) - to_big(a)) % pow2(64 * la)), la);
                            chk!(cs, "Boxed:conditional_negate", &Out::v(if ch == 1 { &neg } else { a }), {
                                let mut x = xa.clone();
                                x.conditional_negate(cc);
                                Out::v(&bw(&x))
                            });
                        }
                    }
                }
                if i % k == 0 {
                    cs.group();
                    chk!(cs, "Boxed::is_zero", &b(is_zero(a)), c(xa.is_zero()));
                    chk!(cs, "!Boxed::is_nonzero", &b(is_zero(a)), c(!xa.is_nonzero()));
                    chk!(cs, "Boxed:Zero::is_zero", &b(is_zero(a)), c(Zero::is_zero(&xa)));
                    chk!(cs, "Boxed:num_traits::Zero", &b(is_zero(a)), b(num_traits::Zero::is_zero(&xa)));
                    cs.group();
                    let one = a[0] == 1 && a[1..].iter().all(|&x| x == 0);
                    chk!(cs, "Boxed::is_one", &b(one), c(xa.is_one()));
                    chk!(cs, "Boxed:num_traits::One", &b(one), b(num_traits::One::is_one(&xa)));
                    cs.group();
                    chk!(cs, "Boxed:Integer::is_odd", &b(a[0] & 1 == 1), c(Integer::is_odd(&xa)));
                    chk!(cs, "!Boxed:Integer::is_even", &b(a[0] & 1 == 1), c(!Integer::is_even(&xa)));
                    chk!(cs, "Boxed::to_odd().is_some", &b(a[0] & 1 == 1), c(xa.to_odd().is_some()));
                }
            });
        }
    }
}

fn main() {
    let ctx = Ctx::from_args(P, "exploration");
    ctx.section_cap.store(40_000_000, std::sync::atomic::Ordering::Relaxed); // comparisons cost ~0.1 us per form
    ctx.set_rule("E1: complete pair products (FULL(n,L9)^2 n<=2; RUNS(n,L5,3) n<=4; RUNS(n,L5,2) wider) plus values differing only in the lowest limb / highest limb / sign bit, MIN, MAX; \
        boxed pairs of independent precision 1..=6(8) limbs incl. zero-padded equal values; every predicate compared with the BigUint / two's-complement order; equal values must hash equally under two hashers; \
        every selector with both choice values must return the chosen operand bit for bit. Non-trivial: a != b.");
    ctx.assume("limb values outside the stated alphabets are not explored");
    ctx.assume("boxed select/assign/swap are only driven with equal precisions (precondition asserted by the implementation)");
    let ctx = &ctx;
    fam_limb(ctx);
    for n in [1usize, 2, 3, 4, 8, 16] {
        dispatch!(n, [1, 2, 3, 4, 8, 16], fam_uint(ctx));
    }
    fam_boxed(ctx);
    fam_monty_select::<1>(ctx);
    fam_monty_select::<2>(ctx);
    fam_monty_select::<4>(ctx);
    std::process::exit(ctx.finish());
}
