//! C07 — modular add/sub/neg/double/mul/halve return the canonical residue (engine E1).
use crypto_bigint::modular::{BoxedMontyForm, BoxedMontyParams, MontyForm, MontyParams};
use crypto_bigint::{AddMod, BoxedUint, Limb, MulMod, NegMod, NonZero, Odd, SubMod, Uint};
use num_bigint::BigUint;
use num_traits::{One, Zero};
use vcommon::*;

const P: &str = "C07";

macro_rules! chk {
    ($cs:expr, $name:expr, $exp:expr, $e:expr) => {
        $cs.check($name, "any", $exp, guard(|| $e))
    };
}

/// moduli for width n (as BigUint, all in [1, 2^(64n)))
fn moduli(n: usize, ctx: &Ctx) -> Vec<BigUint> {
    let bits_ = 64 * n;
    let mut v: Vec<BigUint> = (1u32..=if ctx.thorough() { 257 } else { 17 }).map(BigUint::from).collect();
    v.extend([31u32, 32, 33, 63, 64].map(BigUint::from));
    v.push(pow2(bits_) - 1u32);
    v.push(pow2(bits_) - 2u32);
    v.push(pow2(bits_ - 1) + 1u32);
    v.push(pow2(bits_ - 1) - 1u32);
    v.push(pow2(bits_ - 1));
    v.push(pow2(bits_) / 3u32 | BigUint::one());
    v.push(pow2(bits_) / 4u32 | BigUint::one());
    if n > 1 {
        v.push(pow2(64) + 13u32); // zero high limbs, more than one significant limb, top msb clear
        v.push(pow2(64) - 1u32); // single full limb in a wide type
        v.push(pow2(64 * (n - 1)) - 1u32);
        v.push(pow2(64 * (n - 1)) + 1u32);
        v.push(pow2(64 * (n - 1) + 2) - 5u32);
    }
    if n > 2 {
        v.push(pow2(127) - 1u32);
        v.push(pow2(130) - 5u32);
    }
    let rs = if n <= 2 { full(n, &l5()) } else { runs(n, &l5(), 2) };
    v.extend(rs.iter().map(|x| to_big(x)));
    let bs = bits(n);
    v.extend(thin(bs, if ctx.thorough() { 400 } else { 60 }).iter().map(|x| to_big(x)));
    for c in l13(ctx.seed) {
        if c != 0 {
            v.push(pow2(bits_) - c);
        }
    }
    v.retain(|p| !p.is_zero() && p.bits() as usize <= bits_);
    v.sort();
    v.dedup();
    v
}

/// residues for modulus p: ALL of [0,p) when p <= 64, otherwise a structured set closed under x -> p - x
fn residues(p: &BigUint, n: usize, ctx: &Ctx) -> Vec<BigUint> {
    // ALL residues below this bound (64 quick, 257 thorough)
    let full_bound = if ctx.thorough() { 257u32 } else { 64 };
    if p.bits() <= 9 && *p <= BigUint::from(full_bound) {
        let pv = p.to_u64_digits().first().copied().unwrap_or(0);
        return (0..pv).map(BigUint::from).collect();
    }
    let mut s: Vec<BigUint> = vec![BigUint::zero(), BigUint::one(), BigUint::from(2u32), p - 1u32, p - 2u32, p >> 1, (p >> 1) + 1u32, p - (p >> 2)];
    for a in l9() {
        s.push(BigUint::from(a) % p);
    }
    let (g1, g2) = generic_limbs(ctx.seed);
    let g: Limbs = (0..n).map(|i| if i % 2 == 0 { g1 } else { g2 }.rotate_left(i as u32)).collect();
    s.push(to_big(&g) % p);
    s.push((to_big(&vec![MAX; n])) % p);
    s.push(pow2(64 * n - 1) % p);
    let cl: Vec<BigUint> = s.iter().map(|x| if x.is_zero() { x.clone() } else { p - x }).collect();
    s.extend(cl);
    // neighbours of the complement: a + b = p +- 1
    let nb: Vec<BigUint> = s.iter().flat_map(|x| [(x + 1u32) % p, (x + p - 1u32) % p]).collect();
    if ctx.thorough() {
        s.extend(nb);
    } else {
        s.extend(nb.into_iter().take(8));
    }
    s.sort();
    s.dedup();
    s
}

type MulModFn<'a, const N: usize> = Option<&'a (dyn Fn(&Uint<N>, &Uint<N>, &NonZero<Uint<N>>) -> Vec<u64> + Sync)>;

fn fam_uint<const N: usize>(ctx: &Ctx, mm: MulModFn<N>) {
    let fam = "uint_mod";
    if !ctx.want(fam) {
        return;
    }
    let wname = format!("Uint<{N}>");
    let ms = moduli(N, ctx);
    let bits_ = 64 * N;
    let two_bits = pow2(bits_);
    for p in &ms {
        let rs = residues(p, N, ctx);
        let k = rs.len();
        let pl = from_big(p, N);
        let up = u::<N>(&pl);
        let c_big = &two_bits - p;
        let special = c_big.bits() <= 64; // p = 2^BITS - c with limb-sized c
        let c = c_big.to_u64_digits().first().copied().unwrap_or(0);
        let odd = p.bit(0);
        let sec = format!("{wname} p={}", if p.bits() <= 64 { format!("{p}") } else { format!("~2^{}", p.bits()) });
        ctx.par_for(fam, &sec, k * k, |i, l| {
            let (a, b) = (&rs[i / k], &rs[i % k]);
            let (al, bl) = (from_big(a, N), from_big(b, N));
            let ins: [&[u64]; 3] = [&al, &bl, &pl];
            let mut cs = Case::new(l, P, fam, &wname, &ins);
            let (ua, ub) = (u::<N>(&al), u::<N>(&bl));
            cs.l.nontrivial += (!a.is_zero() && !b.is_zero()) as u64;
            let sum = a + b;
            if sum >= two_bits {
                cs.l.class("unreduced sum overflows 2^BITS");
            }
            if &sum == p {
                cs.l.class("a+b = p exactly");
            }
            if special {
                cs.l.class("special modulus 2^BITS - c");
            }
            let e = Out::v(&from_big(&(&sum % p), N));
            chk!(cs, "Uint::add_mod", &e, Out::v(&w(&ua.add_mod(&ub, &up))));
            chk!(cs, "Uint:AddMod", &e, Out::v(&w(&AddMod::add_mod(&ua, &ub, &up))));
            if special {
                chk!(cs, "Uint::add_mod_special", &e, Out::v(&w(&ua.add_mod_special(&ub, Limb(c)))));
            }
            cs.group();
            let e = Out::v(&from_big(&((a + p - b) % p), N));
            chk!(cs, "Uint::sub_mod", &e, Out::v(&w(&ua.sub_mod(&ub, &up))));
            chk!(cs, "Uint:SubMod", &e, Out::v(&w(&SubMod::sub_mod(&ua, &ub, &up))));
            if special {
                chk!(cs, "Uint::sub_mod_special", &e, Out::v(&w(&ua.sub_mod_special(&ub, Limb(c)))));
            }
            cs.group();
            let prod = (a * b) % p;
            let e = Out::v(&from_big(&prod, N));
            let nzp = NonZero::new(up).unwrap();
            chk!(cs, "Uint::mul_mod_vartime", &e, Out::v(&w(&ua.mul_mod_vartime(&ub, &nzp))));
            chk!(cs, "Uint:MulMod", &e, Out::v(&w(&MulMod::mul_mod(&ua, &ub, &up))));
            if special {
                chk!(cs, "Uint::mul_mod_special", &e, Out::v(&w(&ua.mul_mod_special(&ub, Limb(c)))));
            }
            if odd {
                if let Some(f) = mm {
                    chk!(cs, "Uint::mul_mod", &e, Out::Val(f(&ua, &ub, &nzp)));
                }
            }
            if i % k == 0 {
                // unary forms on a
                if a.is_zero() {
                    cs.l.class("negation of zero");
                }
                cs.group();
                let e = Out::v(&from_big(&((p - a) % p), N));
                chk!(cs, "Uint::neg_mod", &e, Out::v(&w(&ua.neg_mod(&up))));
                chk!(cs, "Uint:NegMod", &e, Out::v(&w(&NegMod::neg_mod(&ua, &up))));
                if special {
                    chk!(cs, "Uint::neg_mod_special", &e, Out::v(&w(&ua.neg_mod_special(Limb(c)))));
                }
                cs.group();
                let e = Out::v(&from_big(&((a + a) % p), N));
                chk!(cs, "Uint::double_mod", &e, Out::v(&w(&ua.double_mod(&up))));
                chk!(cs, "Uint::add_mod(a,a)", &e, Out::v(&w(&ua.add_mod(&ua, &up))));
                if odd {
                    // halving: the unique h in [0,p) with 2h = a (mod p); reached through the Montgomery form
                    cs.group();
                    let h = if a.bit(0) { (a + p) >> 1 } else { a >> 1 };
                    let e = Out::v(&from_big(&h, N));
                    chk!(cs, "MontyForm::div_by_2 (halve)", &e, {
                        let params = MontyParams::new_vartime(Odd::new(up).unwrap());
                        Out::v(&w(&MontyForm::new(&ua, params).div_by_2().retrieve()))
                    });
                }
            }
        });
    }
}

fn fam_boxed(ctx: &Ctx) {
    let fam = "boxed_mod";
    if !ctx.want(fam) {
        return;
    }
    let lens: Vec<usize> = if ctx.thorough() { (1..=20).collect() } else { vec![1, 2, 3, 4, 5, 8, 13, 20] };
    for n in lens {
        let wname = format!("Boxed<{n}>");
        let mut ms = moduli(n, ctx);
        if !ctx.thorough() && n > 4 {
            let keep: Vec<BigUint> = ms.iter().enumerate().filter(|(i, p)| i % 3 == 0 || p.bits() as usize > 64 * n - 2 || p.bits() < 8).map(|(_, p)| p.clone()).collect();
            ms = keep;
        }
        let two_bits = pow2(64 * n);
        // one parallel sweep over (modulus, a, b)
        let sets: Vec<(BigUint, Vec<BigUint>)> = ms.iter().map(|p| (p.clone(), residues(p, n, ctx))).collect();
        let offsets: Vec<usize> = sets.iter().scan(0usize, |acc, (_, r)| {
            let o = *acc;
            *acc += r.len() * r.len();
            Some(o)
        }).collect();
        let total: usize = sets.iter().map(|(_, r)| r.len() * r.len()).sum();
        ctx.par_for(fam, &wname, total, |idx, l| {
            let si = match offsets.binary_search(&idx) {
                Ok(x) => x,
                Err(x) => x - 1,
            };
            let (p, rs) = &sets[si];
            let i = idx - offsets[si];
            let k = rs.len();
            let (a, b) = (&rs[i / k], &rs[i % k]);
            let (al, bl, pl) = (from_big(a, n), from_big(b, n), from_big(p, n));
            let ins: [&[u64]; 3] = [&al, &bl, &pl];
            let mut cs = Case::new(l, P, fam, &wname, &ins);
            let (xa, xb, xp) = (bx(&al), bx(&bl), bx(&pl));
            cs.l.nontrivial += (!a.is_zero() && !b.is_zero()) as u64;
            let c_big = &two_bits - p;
            let special = c_big.bits() <= 64;
            let c = c_big.to_u64_digits().first().copied().unwrap_or(0);
            let odd = p.bit(0);
            let e = Out::v(&from_big(&((a + b) % p), n));
            chk!(cs, "Boxed::add_mod", &e, Out::v(&bw(&xa.add_mod(&xb, &xp))));
            chk!(cs, "Boxed:AddMod", &e, Out::v(&bw(&AddMod::add_mod(&xa, &xb, &xp))));
            chk!(cs, "Boxed::add_mod_assign", &e, {
                let mut x = xa.clone();
                x.add_mod_assign(&xb, &xp);
                Out::v(&bw(&x))
            });
            cs.group();
            let e = Out::v(&from_big(&((a + p - b) % p), n));
            chk!(cs, "Boxed::sub_mod", &e, Out::v(&bw(&xa.sub_mod(&xb, &xp))));
            chk!(cs, "Boxed:SubMod", &e, Out::v(&bw(&SubMod::sub_mod(&xa, &xb, &xp))));
            if special {
                chk!(cs, "Boxed::sub_mod_special", &e, Out::v(&bw(&xa.sub_mod_special(&xb, Limb(c)))));
            }
            cs.group();
            let e = Out::v(&from_big(&((a * b) % p), n));
            if odd {
                chk!(cs, "Boxed::mul_mod", &e, Out::v(&bw(&xa.mul_mod(&xb, &xp))));
                chk!(cs, "Boxed:MulMod", &e, Out::v(&bw(&MulMod::mul_mod(&xa, &xb, &xp))));
            }
            if special {
                chk!(cs, "Boxed::mul_mod_special", &e, Out::v(&bw(&xa.mul_mod_special(&xb, Limb(c)))));
            }
            if i % k == 0 {
                cs.group();
                let e = Out::v(&from_big(&((p - a) % p), n));
                chk!(cs, "Boxed::neg_mod", &e, Out::v(&bw(&xa.neg_mod(&xp))));
                chk!(cs, "Boxed:NegMod", &e, Out::v(&bw(&NegMod::neg_mod(&xa, &xp))));
                if special {
                    chk!(cs, "Boxed::neg_mod_special", &e, Out::v(&bw(&xa.neg_mod_special(Limb(c)))));
                }
                cs.group();
                let e = Out::v(&from_big(&((a + a) % p), n));
                chk!(cs, "Boxed::double_mod", &e, Out::v(&bw(&xa.double_mod(&xp))));
                chk!(cs, "Boxed::add_mod(a,a)", &e, Out::v(&bw(&xa.add_mod(&xa, &xp))));
                if odd {
                    cs.group();
                    let h = if a.bit(0) { (a + p) >> 1 } else { a >> 1 };
                    let e = Out::v(&from_big(&h, n));
                    chk!(cs, "BoxedMontyForm::div_by_2 (halve)", &e, {
                        let params = BoxedMontyParams::new(Odd::new(xp.clone()).unwrap());
                        Out::v(&bw(&BoxedMontyForm::new(xa.clone(), params).div_by_2().retrieve()))
                    });
                }
            }
        });
    }
    let _ = BoxedUint::zero();
}

macro_rules! mm {
    ($n:literal) => {
        Some(&|a: &Uint<$n>, b: &Uint<$n>, p: &NonZero<Uint<$n>>| -> Vec<u64> { w(&a.mul_mod(b, p)) })
    };
}

fn main() {
    let ctx = Ctx::from_args(P, "exploration");
    ctx.set_rule("E1: for every modulus p of the structured set (1..=17(64), 2^BITS-1, 2^(BITS-1)+-1, ~2^BITS/3, /4, p with zero high limbs, RUNS, BITS, every 2^BITS-c with c in L13) ALL residue pairs when p <= 64, \
        otherwise the complete square of a structured residue set (0,1,2,p-1,p-2,p/2,.., alphabet vectors mod p, closed under x -> p-x and +-1); every form; oracle: BigUint % p. Non-trivial: a, b != 0.");
    ctx.assume("limb values outside the stated alphabets are not explored; operands are always inside the documented precondition a, b < p (p odd where required, p = 2^BITS - c for the special forms)");
    let ctx = &ctx;
    fam_uint::<1>(ctx, None);
    fam_uint::<2>(ctx, mm!(2));
    fam_uint::<3>(ctx, mm!(3));
    fam_uint::<4>(ctx, mm!(4));
    fam_uint::<6>(ctx, mm!(6));
    fam_uint::<8>(ctx, mm!(8));
    fam_uint::<12>(ctx, mm!(12));
    fam_uint::<16>(ctx, mm!(16));
    fam_boxed(ctx);
    std::process::exit(ctx.finish());
}
