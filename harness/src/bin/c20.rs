//! C20 — integer square root is the exact floor for every input (engine E1).
use crypto_bigint::subtle::CtOption;
use crypto_bigint::{BoxedUint, SquareRoot, Uint};
use num_bigint::BigUint;
use num_traits::{One, Zero};
use vcommon::*;

const P: &str = "C20";

macro_rules! chk {
    ($cs:expr, $name:expr, $exp:expr, $e:expr) => {
        $cs.check($name, "any", $exp, guard(|| $e))
    };
}

fn inputs(n: usize, ctx: &Ctx) -> Vec<Limbs> {
    let bits_ = 64 * n;
    let th = ctx.thorough();
    let mut xs: Vec<BigUint> = Vec::new();
    // complete low range
    let low = if th { 1u64 << 20 } else { 1u64 << 17 };
    xs.extend((0..low).map(BigUint::from));
    // t^2-1, t^2, t^2+1 for t = 2^j, 2^j +- 1, 2^j + 2 and structured t
    let mut ts: Vec<BigUint> = Vec::new();
    for j in 0..=bits_ / 2 {
        let p = pow2(j);
        ts.extend([p.clone(), &p + 1u32, &p + 2u32, &p + 3u32]);
        if j > 0 {
            ts.push(&p - 1u32);
        }
    }
    let half = (n + 1) / 2;
    for t in if half <= 2 { full(half, &l9()) } else { runs(half, &l5(), 2) } {
        ts.push(to_big(&t));
    }
    let (g1, g2) = generic_limbs(ctx.seed);
    ts.push(to_big(&(0..half).map(|i| if i % 2 == 0 { g1 } else { g2 }).collect::<Vec<_>>()));
    let m = pow2(bits_);
    for t in ts {
        let sq = &t * &t;
        for x in [sq.clone() + 1u32, sq.clone(), if sq.is_zero() { sq.clone() } else { &sq - 1u32 }, &sq + &t, &sq + &t + &t] {
            if x < m {
                xs.push(x);
            }
        }
    }
    xs.push(&m - 1u32);
    xs.push(&m - 2u32);
    for d in [0u32, 1, 2] {
        xs.push(pow2(bits_ - 1) - d);
        xs.push(pow2(bits_ - 1) + d);
    }
    // values of every odd/even bit length just above a power of four
    for j in 1..bits_ {
        xs.push(pow2(j) + pow2(j / 2));
        xs.push(pow2(j) + pow2(j / 2 + 1) - 1u32);
    }
    let mut v: Vec<Limbs> = xs.iter().map(|x| from_big(x, n)).collect();
    v.extend(if n <= 2 { full(n, &l9()) } else { runs(n, &l5(), 2) });
    dedup(v)
}

fn uopt<const N: usize>(o: CtOption<Uint<N>>) -> Out {
    match Option::<Uint<N>>::from(o) {
        Some(x) => Out::Val(w(&x)),
        None => Out::None,
    }
}

fn fam_uint<const N: usize>(ctx: &Ctx) {
    let fam = "uint_sqrt";
    if !ctx.want(fam) {
        return;
    }
    let wname = format!("Uint<{N}>");
    let xs = inputs(N, ctx);
    ctx.par_for(fam, &wname, xs.len(), |i, l| {
        let a = &xs[i];
        let ins: [&[u64]; 1] = [a];
        let mut cs = Case::new(l, P, fam, &wname, &ins);
        let ua = u::<N>(a);
        let x = to_big(a);
        let s = x.sqrt();
        debug_assert!(&s * &s <= x);
        let perfect = &s * &s == x;
        cs.l.nontrivial += (x.bits() > 2) as u64;
        if perfect {
            cs.l.class("perfect square");
        }
        if (&s + 1u32) * (&s + 1u32) == &x + 1u32 {
            cs.l.class("x = t^2 - 1");
        }
        let e = Out::v(&from_big(&s, N));
        chk!(cs, "Uint::sqrt", &e, Out::v(&w(&ua.sqrt())));
        chk!(cs, "Uint::sqrt_vartime", &e, Out::v(&w(&ua.sqrt_vartime())));
        chk!(cs, "Uint::wrapping_sqrt", &e, Out::v(&w(&ua.wrapping_sqrt())));
        chk!(cs, "Uint::wrapping_sqrt_vartime", &e, Out::v(&w(&ua.wrapping_sqrt_vartime())));
        chk!(cs, "Uint:SquareRoot::sqrt", &e, Out::v(&w(&SquareRoot::sqrt(&ua))));
        chk!(cs, "Uint:SquareRoot::sqrt_vartime", &e, Out::v(&w(&SquareRoot::sqrt_vartime(&ua))));
        cs.group();
        let ec = Out::opt(perfect, &from_big(&s, N));
        chk!(cs, "Uint::checked_sqrt", &ec, uopt(ua.checked_sqrt()));
        chk!(cs, "Uint::checked_sqrt_vartime", &ec, uopt(ua.checked_sqrt_vartime()));
    });
}

fn fam_boxed(ctx: &Ctx) {
    let fam = "boxed_sqrt";
    if !ctx.want(fam) {
        return;
    }
    let lens: Vec<usize> = if ctx.thorough() { (1..=20).collect() } else { (1..=20).collect() };
    for n in lens {
        let wname = format!("Boxed<{n}>");
        let mut xs = inputs(n, ctx);
        if !ctx.thorough() {
            // keep the structured part, thin the dense low range
            let keep: Vec<Limbs> = xs.iter().enumerate().filter(|(i, _)| *i >= (1 << 17) || i % 64 == 0).map(|(_, x)| x.clone()).collect();
            xs = keep;
        }
        ctx.par_for(fam, &wname, xs.len(), |i, l| {
            let a = &xs[i];
            let ins: [&[u64]; 1] = [a];
            let mut cs = Case::new(l, P, fam, &wname, &ins);
            let xa = bx(a);
            let x = to_big(a);
            let s = x.sqrt();
            let perfect = &s * &s == x;
            cs.l.nontrivial += (x.bits() > 2) as u64;
            let e = Out::v(&from_big(&s, n));
            chk!(cs, "Boxed::sqrt", &e, Out::v(&bw(&xa.sqrt())));
            chk!(cs, "Boxed::sqrt_vartime", &e, Out::v(&bw(&xa.sqrt_vartime())));
            chk!(cs, "Boxed::wrapping_sqrt", &e, Out::v(&bw(&xa.wrapping_sqrt())));
            chk!(cs, "Boxed::wrapping_sqrt_vartime", &e, Out::v(&bw(&xa.wrapping_sqrt_vartime())));
            chk!(cs, "Boxed:SquareRoot::sqrt", &e, Out::v(&bw(&SquareRoot::sqrt(&xa))));
            chk!(cs, "Boxed:SquareRoot::sqrt_vartime", &e, Out::v(&bw(&SquareRoot::sqrt_vartime(&xa))));
            cs.group();
            let ec = Out::opt(perfect, &from_big(&s, n));
            let bo = |o: CtOption<BoxedUint>| match Option::<BoxedUint>::from(o) {
                Some(x) => Out::Val(bw(&x)),
                None => Out::None,
            };
            chk!(cs, "Boxed::checked_sqrt", &ec, bo(xa.checked_sqrt()));
            chk!(cs, "Boxed::checked_sqrt_vartime", &ec, bo(xa.checked_sqrt_vartime()));
        });
    }
}

fn main() {
    let ctx = Ctx::from_args(P, "exploration");
    ctx.set_rule("E1: ALL x < 2^14 (quick) / 2^20 (thorough) in every width; t^2-1, t^2, t^2+1, t^2+t, t^2+2t for t = 2^j, 2^j+-1, 2^j+2, 2^j+3 for every j and structured half-width t; 2^BITS-1, around 2^(BITS-1); \
        values of every bit length just above a power of four; L9/L5 patterns. Oracle: BigUint::sqrt (s^2 <= x < (s+1)^2); checked forms some iff perfect square. Non-trivial: x >= 4.");
    ctx.assume("limb values outside the stated sets are not explored; oracle = num-bigint sqrt");
    let ctx = &ctx;
    for n in [1usize, 2, 3, 4, 8, 16] {
        dispatch!(n, [1, 2, 3, 4, 8, 16], fam_uint(ctx));
    }
    fam_boxed(ctx);
    let _ = (BigUint::one(), BigUint::zero());
    std::process::exit(ctx.finish());
}
