//! C17 — radix strings: canonical output, exact parse, overflow always reported (engines E5 + E1).
use crypto_bigint::{BoxedUint, DecodeError, Uint};
use num_bigint::BigUint;
use num_traits::{One, Zero};
use vcommon::*;

const P: &str = "C17";

#[derive(Clone, Copy, PartialEq, Eq, Debug)]
enum Kind {
    Empty,
    InvalidDigit,
}

/// independent reference grammar: `+? digit (digit | _)*`, no leading/trailing `_`
fn ref_parse(s: &str, radix: u32) -> (Result<BigUint, Kind>, bool) {
    let b = s.as_bytes();
    let b = if b.first() == Some(&b'+') { &b[1..] } else { b };
    if b.is_empty() {
        return (Err(Kind::Empty), false);
    }
    if b[0] == b'_' || b[b.len() - 1] == b'_' {
        return (Err(Kind::InvalidDigit), false);
    }
    let mut v = BigUint::zero();
    let mut doubled = false;
    let mut prev_us = false;
    for &c in b {
        if c == b'_' {
            if prev_us {
                doubled = true;
            }
            prev_us = true;
            continue;
        }
        prev_us = false;
        let d = match c {
            b'0'..=b'9' => (c - b'0') as u32,
            b'a'..=b'z' => (c - b'a') as u32 + 10,
            b'A'..=b'Z' => (c - b'A') as u32 + 10,
            _ => 99,
        };
        if d >= radix {
            return (Err(Kind::InvalidDigit), doubled);
        }
        v = v * radix + d;
    }
    (Ok(v), doubled)
}

fn code(e: DecodeError) -> u64 {
    match e {
        DecodeError::Empty => 1001,
        DecodeError::InvalidDigit => 1002,
        DecodeError::InputSize => 1003,
        DecodeError::Precision => 1004,
        #[allow(unreachable_patterns)]
        _ => 1999,
    }
}
fn out_err(c: u64) -> Out {
    Out::Val(vec![u64::MAX, c])
}

/// expected outcome for a target of `nl` limbs and `prec` bits (prec = 64*nl for Uint; None = unbounded boxed)
fn expect(s: &str, radix: u32, nl: Option<usize>, prec: Option<usize>) -> (Vec<Out>, bool) {
    let (r, doubled) = ref_parse(s, radix);
    match r {
        Err(Kind::Empty) => (vec![out_err(1001)], doubled),
        Err(Kind::InvalidDigit) => {
            // an over-long non-numeral may report the size error first (both apply): accept either
            let mut v = vec![out_err(1002)];
            if s.len() > 8 {
                v.push(out_err(1003));
            }
            (v, doubled)
        }
        Ok(v) => match nl {
            None => {
                let n = (v.bits() as usize).div_ceil(64).max(1);
                (vec![Out::v(&from_big(&v, n))], doubled)
            }
            Some(nl) => {
                if v.bits() as usize > 64 * nl {
                    (vec![out_err(1003)], doubled)
                } else if v.bits() as usize > prec.unwrap_or(64 * nl) {
                    (vec![out_err(1004)], doubled)
                } else {
                    (vec![Out::v(&from_big(&v, nl))], doubled)
                }
            }
        },
    }
}

fn judge(cs: &mut Case, form: &'static str, s: &str, radix: u32, nl: Option<usize>, prec: Option<usize>, got: Result<Out, String>) {
    let (acc, doubled) = expect(s, radix, nl, prec);
    cs.l.form(form);
    let (g, msg) = match got {
        Ok(o) => (o, String::new()),
        Err(m) => (Out::Panic, m),
    };
    // strings with doubled interior underscores: acceptance is unspecified; never a panic, and if accepted the value of the digits
    let ok = if doubled && !matches!(g, Out::Panic) {
        acc.contains(&g) || matches!(&g, Out::Val(v) if v.first() == Some(&u64::MAX))
    } else {
        acc.contains(&g)
    };
    if !ok {
        let totality = matches!(g, Out::Panic);
        let f = Failure {
            props: if totality { vec![P, "C11"] } else { vec![P] },
            family: cs.family,
            form: form.to_string(),
            class: if s == "0" || s.trim_start_matches(['0', '_', '+']).is_empty() && !s.is_empty() { "numeral_zero".into() } else { "any".into() },
            width: cs.width.to_string(),
            inputs: vec![format!("{s:?}"), format!("radix={radix}")],
            expected: acc.iter().map(|o| o.show()).collect::<Vec<_>>().join(" | "),
            got: if msg.is_empty() { g.show() } else { format!("panic: {msg}") },
        };
        cs.l.fail(f);
    }
}

fn res_u<const N: usize>(r: Result<Uint<N>, DecodeError>) -> Out {
    match r {
        Ok(v) => Out::v(&w(&v)),
        Err(e) => out_err(code(e)),
    }
}
fn res_b(r: Result<BoxedUint, DecodeError>) -> Out {
    match r {
        Ok(v) => Out::v(&bw(&v)),
        Err(e) => out_err(code(e)),
    }
}

fn digit_char(d: u32) -> char {
    std::char::from_digit(d, 36).unwrap()
}

/// all strings up to `maxlen` over a 10-symbol alphabet, for every radix
fn fam_parse(ctx: &Ctx) {
    if !ctx.want("radix_parse") {
        return;
    }
    let maxlen = if ctx.thorough() { 5 } else { 4 };
    for radix in 2..=36u32 {
        let first_invalid = if radix < 36 { digit_char(radix) } else { '{' };
        let syms: Vec<String> = vec!["0".into(), "1".into(), digit_char(radix - 1).to_string(), first_invalid.to_string(), "_".into(), "+".into(), "a".into(), "Z".into(), " ".into(), "\u{80}".into()];
        let k = syms.len();
        let total: usize = (0..=maxlen).map(|l| k.pow(l as u32)).sum();
        ctx.par_for("radix_parse", &format!("radix {radix}"), total, |mut idx, l| {
            // decode idx -> (len, digits)
            let mut len = 0;
            while idx >= k.pow(len as u32) {
                idx -= k.pow(len as u32);
                len += 1;
            }
            let mut s = String::new();
            for _ in 0..len {
                s.push_str(&syms[idx % k]);
                idx /= k;
            }
            let ins: [&[u64]; 0] = [];
            let mut cs = Case::new(l, P, "radix_parse", "strings", &ins);
            cs.l.nontrivial += (len > 1) as u64;
            judge(&mut cs, "U64::from_str_radix_vartime", &s, radix, Some(1), None, guard(|| res_u(Uint::<1>::from_str_radix_vartime(&s, radix))));
            judge(&mut cs, "U128::from_str_radix_vartime", &s, radix, Some(2), None, guard(|| res_u(Uint::<2>::from_str_radix_vartime(&s, radix))));
            judge(&mut cs, "U64:num_traits::Num::from_str_radix", &s, radix, Some(1), None, guard(|| res_u(<Uint<1> as num_traits::Num>::from_str_radix(&s, radix))));
            judge(&mut cs, "Boxed::from_str_radix_vartime", &s, radix, None, None, guard(|| res_b(BoxedUint::from_str_radix_vartime(&s, radix))));
            judge(&mut cs, "Boxed::from_str_radix_with_precision_vartime(64)", &s, radix, Some(1), Some(64), guard(|| res_b(BoxedUint::from_str_radix_with_precision_vartime(&s, radix, 64))));
            judge(&mut cs, "Boxed::from_str_radix_with_precision_vartime(7)", &s, radix, Some(1), Some(7), guard(|| res_b(BoxedUint::from_str_radix_with_precision_vartime(&s, radix, 7))));
            // a parsed boxed value must be usable: formatting it back must not panic and must be canonical
            if let Ok(Ok(v)) = guard(|| BoxedUint::from_str_radix_vartime(&s, radix)) {
                if let (Ok(x), _) = ref_parse(&s, radix) {
                    cs.check("Boxed parse->format", if x.is_zero() { "numeral_zero" } else { "any" }, &Out::Val(x.to_str_radix(radix).bytes().map(|b| b as u64).collect()),
                        guard(|| Out::Val(v.to_string_radix_vartime(radix).bytes().map(|b| b as u64).collect())));
                }
            }
        });
    }
}

fn fmt_values(n: usize, radix: u32, ctx: &Ctx) -> Vec<BigUint> {
    let m = pow2(64 * n);
    let mut v = vec![BigUint::zero(), BigUint::one(), &m - 1u32, &m - 2u32, pow2(64 * n - 1)];
    let mut p = BigUint::one();
    let mut j = 0usize;
    let step = if n > 40 && !ctx.thorough() { 7 } else { 1 };
    while p < m {
        if j % step == 0 || &p * radix >= m {
            v.push(p.clone());
            v.push(&p - 1u32);
            v.push(&p + 1u32);
        }
        p *= radix;
        j += 1;
    }
    let (g1, g2) = generic_limbs(ctx.seed);
    v.push(to_big(&(0..n).map(|i| if i % 2 == 0 { g1 } else { g2 }.rotate_left(i as u32)).collect::<Vec<_>>()));
    if n <= 2 {
        v.extend(full(n, &l9()).iter().map(|x| to_big(x)));
    } else if n <= 16 {
        v.extend(runs(n, &l5(), 2).iter().map(|x| to_big(x)));
    } else {
        v.extend(runs(n, &l3(), 1).iter().map(|x| to_big(x)));
        // limb-aligned zero groups (hex/binary aligned decoders)
        let mut t = vec![0u64; n];
        t[n - 1] = 1;
        v.push(to_big(&t));
        t[n / 2] = 0xabc;
        v.push(to_big(&t));
    }
    v.retain(|x| *x < m);
    v.sort();
    v.dedup();
    v
}

fn decorate(canon: &str) -> Vec<String> {
    let mut v = vec![canon.to_string(), canon.to_uppercase(), format!("+{canon}"), format!("000{canon}"), format!("+0_0{canon}")];
    // an underscore inserted at every interior position (bounded for long numerals)
    let n = canon.len();
    let step = (n / 24).max(1);
    for i in (1..n).step_by(step) {
        v.push(format!("{}_{}", &canon[..i], &canon[i..]));
    }
    v
}

fn fam_format<const N: usize>(ctx: &Ctx) {
    if !ctx.want("radix_format") {
        return;
    }
    let wname = format!("Uint<{N}>");
    let jobs: Vec<(u32, BigUint)> = (2..=36u32).flat_map(|r| fmt_values(N, r, ctx).into_iter().map(move |v| (r, v))).collect();
    ctx.par_for("radix_format", &wname, jobs.len(), |i, l| {
        let (radix, x) = (jobs[i].0, &jobs[i].1);
        let a = from_big(x, N);
        let ins: [&[u64]; 1] = [&a];
        let mut cs = Case::new(l, P, "radix_format", &wname, &ins);
        cs.extra = Some(format!("radix={radix}"));
        cs.l.nontrivial += (x.bits() > 64) as u64;
        let canon = x.to_str_radix(radix);
        let ua = u::<N>(&a);
        cs.check("Uint::to_string_radix_vartime", "any", &Out::Val(canon.bytes().map(|b| b as u64).collect()), guard(|| Out::Val(ua.to_string_radix_vartime(radix).bytes().map(|b| b as u64).collect())));
        let mut decorated = decorate(&canon);
        if i % 8 == 0 {
            // numerals much longer than any value of the type can need: leading zeros and underscore groups carry no
            // value, so the numeral is still well formed and must parse to the same value (never InputSize)
            let maxd = (64 * N).div_ceil(radix.ilog2() as usize);
            decorated.push(format!("{}{canon}", "0".repeat(2 * maxd + 9)));
            decorated.push(format!("+{}{canon}", "0_".repeat(maxd + 5)));
            if canon.len() >= 2 {
                decorated.push(format!("{}{}{}", &canon[..1], "_".repeat(2 * maxd + 9), &canon[1..]));
            }
        }
        for s in decorated {
            cs.group();
            judge(&mut cs, "Uint::from_str_radix_vartime", &s, radix, Some(N), None, guard(|| res_u(Uint::<N>::from_str_radix_vartime(&s, radix))));
            // the num_traits::Num route must be the same decoder (same group: also a C15 pair)
            judge(&mut cs, "Uint:num_traits::Num::from_str_radix", &s, radix, Some(N), None, guard(|| res_u(<Uint<N> as num_traits::Num>::from_str_radix(&s, radix))));
        }
        // overflow boundary: 2^BITS and 2^BITS + x written plainly and decorated must be InputSize
        if i % 7 == 0 {
            let over = (pow2(64 * N) + x).to_str_radix(radix);
            for s in [over.clone(), format!("+00_{over}")] {
                cs.group();
                judge(&mut cs, "Uint::from_str_radix_vartime(overflow)", &s, radix, Some(N), None, guard(|| res_u(Uint::<N>::from_str_radix_vartime(&s, radix))));
            }
        }
    });
}

fn fam_format_boxed(ctx: &Ctx) {
    if !ctx.want("radix_format_boxed") {
        return;
    }
    let lens: Vec<usize> = if ctx.thorough() { (1..=140).collect() } else { vec![1, 2, 3, 4, 5, 6, 31, 32, 33, 34, 35, 38, 42, 47, 56, 62, 63, 64, 65, 79, 94, 95, 96, 126, 127, 128, 129, 140] };
    for n in lens {
        let wname = format!("Boxed<{n}>");
        let radices: Vec<u32> = if n <= 6 || ctx.thorough() { (2..=36).collect() } else { (2..=36).collect() };
        let jobs: Vec<(u32, BigUint)> = radices.iter().flat_map(|&r| {
            let vs = fmt_values(n, r, ctx);
            let mut vs = if n > 6 && !ctx.thorough() { vs.into_iter().rev().step_by(if n > 40 { 9 } else { 5 }).collect::<Vec<_>>() } else { vs };
            // the all-ones value and 2^(BITS-1) survive every thinning: the large-divisor encoder path (32 + 31k limbs)
            // only misbehaves when the top bits are set
            vs.push(pow2(64 * n) - 1u32);
            vs.push(pow2(64 * n - 1));
            vs.into_iter().map(move |v| (r, v))
        }).collect();
        ctx.par_for("radix_format_boxed", &wname, jobs.len(), |i, l| {
            let (radix, x) = (jobs[i].0, &jobs[i].1);
            let a = from_big(x, n);
            let ins: [&[u64]; 1] = [&a];
            let mut cs = Case::new(l, P, "radix_format_boxed", &wname, &ins);
            cs.extra = Some(format!("radix={radix}"));
            cs.l.nontrivial += (x.bits() > 64) as u64;
            let canon = x.to_str_radix(radix);
            let xa = bx(&a);
            cs.check("Boxed::to_string_radix_vartime", if x.is_zero() { "numeral_zero" } else { "any" }, &Out::Val(canon.bytes().map(|b| b as u64).collect()), guard(|| Out::Val(xa.to_string_radix_vartime(radix).bytes().map(|b| b as u64).collect())));
            let dec = decorate(&canon);
            for s in dec.iter().take(if n > 8 { 4 } else { usize::MAX }) {
                cs.group();
                judge(&mut cs, "Boxed::from_str_radix_vartime", s, radix, None, None, guard(|| res_b(BoxedUint::from_str_radix_vartime(s, radix))));
                cs.group();
                judge(&mut cs, "Boxed::from_str_radix_with_precision_vartime(64n)", s, radix, Some(n), Some(64 * n), guard(|| res_b(BoxedUint::from_str_radix_with_precision_vartime(s, radix, 64 * n as u32))));
            }
            // precision boundaries: a precision that is not a multiple of 64
            if n <= 6 || i % 11 == 0 {
                // 64n-3 (odd), and the byte-aligned but not limb-aligned precisions 64n-8, 64n-32, 64n-56
                for prec in [64 * n - 3, 64 * n - 8, 64 * n - 32, 64 * n - 56] {
                    for v in [pow2(prec), pow2(prec) - 1u32, pow2(64 * n), pow2(64 * n) - 1u32] {
                        let s = v.to_str_radix(radix);
                        cs.group();
                        judge(&mut cs, "Boxed::from_str_radix_with_precision_vartime(non-limb precision)", &s, radix, Some(n), Some(prec), guard(|| res_b(BoxedUint::from_str_radix_with_precision_vartime(&s, radix, prec as u32))));
                    }
                }
            }
        });
    }
}

fn main() {
    let ctx = Ctx::from_args(P, "exploration");
    ctx.set_rule("E5+E1: EVERY radix 2..=36. Parsing: ALL strings of length <= 4 (quick) / 5 (thorough) over the 10-symbol alphabet {'0','1',max digit,first invalid digit,'_','+','a','Z',' ',U+0080} into U64, U128, unbounded BoxedUint and BoxedUint with precision 64 and 7, \
        against an independent grammar `+? digit (digit|_)*`. Formatting: 0, 1, radix^j, radix^j+-1 for every j that fits, 2^BITS-1, 2^(BITS-1), L9/L5 patterns for Uint<1,2,3,4,8,16,40> and BoxedUint 1..=140 limbs vs BigUint::to_str_radix, \
        parsed back plain, upper-cased, with '+', leading zeros, and an underscore at every interior position; overflow numerals 2^BITS(+x) and precision boundaries 2^p, 2^p-1 for p = 64n-3. Non-trivial: value wider than a limb / string longer than one character.");
    ctx.assume("strings with doubled interior underscores are checked for 'no panic, and if accepted then the value of the digits' only (acceptance unspecified)");
    ctx.assume("a non-numeral longer than 8 characters may report InputSize instead of InvalidDigit (both apply)");
    let ctx = &ctx;
    fam_parse(ctx);
    fam_format::<1>(ctx);
    fam_format::<2>(ctx);
    fam_format::<3>(ctx);
    fam_format::<4>(ctx);
    fam_format::<8>(ctx);
    fam_format::<16>(ctx);
    fam_format::<40>(ctx);
    fam_format_boxed(ctx);
    std::process::exit(ctx.finish());
}
