//! C10 — modular inversion and gcd: invertibility decided exactly, results exact (engine E1).
use crypto_bigint::modular::{BoxedMontyForm, BoxedMontyParams, ConstMontyForm, ConstMontyFormInverter, ConstMontyParams, MontyForm, MontyParams};
use crypto_bigint::subtle::CtOption;
use crypto_bigint::{
    impl_modulus, BoxedUint, ConstCtOption, Gcd, InvMod, Invert, Inverter, NonZero, Odd, PrecomputeInverter,
    Uint, U1024, U128, U192, U2048, U256, U384, U512, U64,
};
use num_bigint::BigUint;
use num_integer::Integer as _;
use num_traits::{One, Zero};
use vcommon::*;

const P: &str = "C10";

macro_rules! chk {
    ($cs:expr, $name:expr, $cls:expr, $exp:expr, $e:expr) => {
        $cs.check($name, $cls, $exp, guard(|| $e))
    };
}

fn cco<const N: usize>(o: ConstCtOption<Uint<N>>) -> Out {
    match Option::<Uint<N>>::from(o) {
        Some(x) => Out::Val(w(&x)),
        None => Out::None,
    }
}
fn co<const N: usize>(o: CtOption<Uint<N>>) -> Out {
    match Option::<Uint<N>>::from(o) {
        Some(x) => Out::Val(w(&x)),
        None => Out::None,
    }
}
fn bo(o: CtOption<BoxedUint>) -> Out {
    match Option::<BoxedUint>::from(o) {
        Some(x) => Out::Val(bw(&x)),
        None => Out::None,
    }
}

/// exact inverse of a modulo m (m >= 1) if it exists, as the unique value in [0, m)
fn ref_inv(a: &BigUint, m: &BigUint) -> Option<BigUint> {
    if m.is_zero() {
        return None;
    }
    if m.is_one() {
        return Some(BigUint::zero());
    }
    let (a_, m_) = (num_bigint::BigInt::from(a.clone()), num_bigint::BigInt::from(m.clone()));
    let e = a_.extended_gcd(&m_);
    if !e.gcd.is_one() {
        return None;
    }
    let x = ((e.x % &m_) + &m_) % &m_;
    Some(x.to_biguint().unwrap())
}

/// (a, m) cases for width n limbs
fn cases(n: usize, ctx: &Ctx) -> Vec<(BigUint, BigUint)> {
    let th = ctx.thorough();
    let bits_ = 64 * n;
    let top = pow2(bits_);
    let mut out = Vec::new();
    // (i) small-modulus exhaustiveness: every m in 0..=257 (0 = totality), every a in 0..2m
    let maxm = if n <= 4 || th { 257u32 } else { 40 };
    for m in 0..=maxm {
        for a in 0..(2 * m).max(3) {
            out.push((BigUint::from(a), BigUint::from(m)));
        }
    }
    // (ii) m = s * 2^k for every k, s in {1, 3, generic odd}
    let (g1, g2) = generic_limbs(ctx.seed);
    let gv = to_big(&(0..n).map(|i| if i % 2 == 0 { g1 } else { g2 }.rotate_left(i as u32)).collect::<Vec<_>>());
    let kstep = if th || n <= 2 { 1 } else if n <= 8 { 3 } else { 29 };
    for k in (0..bits_).step_by(kstep).chain([63, 64, 65, bits_ - 1].into_iter().filter(|&x| x < bits_)) {
        for s in [BigUint::one(), BigUint::from(3u32), (&gv >> (k + 1)) | BigUint::one(), pow2(bits_ - k) - 1u32] {
            let m = &s << k;
            if m.is_zero() || m >= top {
                continue;
            }
            let mut as_: Vec<BigUint> = vec![BigUint::zero(), BigUint::one(), (&m - 1u32) % &top, BigUint::from(3u32), &gv % &top, (&gv | BigUint::one()) % &top];
            as_.push(BigUint::from(7u32) << (k / 2)); // 2^j * odd: shares only the factor 2 with m when k > 0
            as_.push((&m + 1u32) % &top); // a >= m
            if s > BigUint::one() {
                as_.push(&s % &top); // multiple of the odd part
            }
            for a in as_ {
                out.push((a, m.clone()));
            }
        }
    }
    // (iii) products of small primes: shared factors chosen
    let primes = [3u64, 5, 7, 11, 13, 251, 65537, 4294967291, 18446744073709551557];
    for &p in &primes {
        for &q in &primes {
            let m = BigUint::from(p) * BigUint::from(q);
            if m >= top {
                continue;
            }
            for a in [BigUint::from(p), BigUint::from(q), BigUint::from(p) * 2u32, BigUint::from(2u32), &m - 1u32, &m + BigUint::from(p), BigUint::from(p + 2)] {
                if a < top {
                    out.push((a, m.clone()));
                }
            }
        }
    }
    out.push((BigUint::from(2u32), &top - 1u32));
    out.push((&top - 2u32, &top - 1u32));
    out.push((&top - 1u32, &top - 1u32));
    out.sort();
    out.dedup();
    out
}

macro_rules! fam_uint {
    ($ctx:expr, $t:ty, $n:literal) => {{
        let ctx: &Ctx = $ctx;
        let wname = format!("Uint<{}>", $n);
        if ctx.want("inv_mod") {
            let cs_ = cases($n, ctx);
            ctx.par_for("inv_mod", &wname, cs_.len(), |i, l| {
                let (a, m) = (&cs_[i].0, &cs_[i].1);
                let (al, ml) = (from_big(a, $n), from_big(m, $n));
                let ins: [&[u64]; 2] = [&al, &ml];
                let mut cs = Case::new(l, P, "inv_mod", &wname, &ins);
                let (ua, um): ($t, $t) = (u::<$n>(&al), u::<$n>(&ml));
                let inv = ref_inv(a, m);
                cs.l.nontrivial += (inv.is_some() && m.bits() > 1) as u64;
                let cls = if m.is_zero() { "zero_modulus" } else if m.is_one() { "modulus_one" } else { "any" };
                if inv.is_none() && !m.is_zero() {
                    cs.l.class("not invertible");
                }
                if !m.bit(0) && !m.is_zero() {
                    cs.l.class("even modulus");
                }
                if a >= m {
                    cs.l.class("a >= m");
                }
                let exp = match &inv {
                    Some(x) => Out::v(&from_big(x, $n)),
                    None => Out::None,
                };
                if m.is_one() {
                    // any x satisfies a*x = 1 (mod 1): only is_some is specified
                    cs.l.form("Uint::inv_mod (m=1: is_some)");
                    match guard(|| bool::from(ua.inv_mod(&um).is_some())) {
                        Ok(true) => {}
                        r => cs.check("Uint::inv_mod (m=1: is_some)", cls, &Out::Val(vec![1]), r.map(|b| Out::Val(vec![b as u64]))),
                    }
                } else {
                    chk!(cs, "Uint::inv_mod", cls, &exp, cco(ua.inv_mod(&um)));
                    chk!(cs, "Uint:InvMod", cls, &exp, co(InvMod::inv_mod(&ua, &um)));
                }
                if m.bit(0) {
                    let om = Odd::new(um).unwrap();
                    if !m.is_one() {
                        chk!(cs, "Uint::inv_odd_mod", cls, &exp, cco(ua.inv_odd_mod(&om)));
                        chk!(cs, "Odd<Uint>::precompute_inverter.invert", cls, &exp, co(om.precompute_inverter().invert(&ua)));
                        chk!(cs, "Odd<Uint>::precompute_inverter.invert_vartime", cls, &exp, co(om.precompute_inverter().invert_vartime(&ua)));
                        // signed: Int::inv_odd_mod of +a and -a (when representable)
                        if a.bits() < 64 * $n {
                            cs.group();
                            let ia = ua.as_int();
                            chk!(cs, "Int::inv_odd_mod(+a)", cls, &exp, co(ia.inv_odd_mod(&om)));
                            cs.group();
                            let expn = match &inv {
                                Some(x) => Out::v(&from_big(&((m - x) % m), $n)),
                                None => Out::None,
                            };
                            chk!(cs, "Int::inv_odd_mod(-a)", cls, &expn, co(ia.wrapping_neg().inv_odd_mod(&om)));
                            chk!(cs, "Int:InvMod(-a)", cls, &expn, co(InvMod::inv_mod(&ia.wrapping_neg(), &NonZero::new(um).unwrap())));
                        }
                        // Montgomery forms: retrieved values multiply to one
                        cs.group();
                        let am = a % m;
                        let invm = ref_inv(&am, m);
                        let expm = match &invm {
                            Some(x) => Out::v(&from_big(x, $n)),
                            None => Out::None,
                        };
                        let params = MontyParams::new_vartime(om);
                        let x = MontyForm::new(&ua, params);
                        let mo = |o: ConstCtOption<MontyForm<$n>>| match Option::<MontyForm<$n>>::from(o) {
                            Some(v) => Out::v(&w(&v.retrieve())),
                            None => Out::None,
                        };
                        let mc = |o: CtOption<MontyForm<$n>>| match Option::<MontyForm<$n>>::from(o) {
                            Some(v) => Out::v(&w(&v.retrieve())),
                            None => Out::None,
                        };
                        chk!(cs, "MontyForm::inv", cls, &expm, mo(x.inv()));
                        chk!(cs, "MontyForm::inv_vartime", cls, &expm, mo(x.inv_vartime()));
                        chk!(cs, "MontyForm:Invert::invert", cls, &expm, mc(x.invert().into()));
                        chk!(cs, "MontyForm:Invert::invert_vartime", cls, &expm, mc(x.invert_vartime().into()));
                        chk!(cs, "MontyParams::precompute_inverter.invert", cls, &expm, mc(params.precompute_inverter().invert(&x)));
                        chk!(cs, "MontyParams::precompute_inverter.invert_vartime", cls, &expm, mc(params.precompute_inverter().invert_vartime(&x)));
                        if invm.is_some() {
                            cs.group();
                            chk!(cs, "MontyForm x * inv(x) == one", cls, &Out::v(&from_big(&(BigUint::one() % m), $n)), Out::v(&w(&(x * Option::<MontyForm<$n>>::from(x.inv()).unwrap()).retrieve())));
                        }
                    } else {
                        // m = 1: gcd(a, 1) = 1 for every a, so every route must report an inverse (any residue mod 1 is one;
                        // only is_some and, for Montgomery forms, the retrieved value 0 are specified)
                        let some = Out::Val(vec![1]);
                        let b = |v: bool| Out::Val(vec![v as u64]);
                        cs.group();
                        chk!(cs, "Uint::inv_odd_mod (m=1: is_some)", cls, &some, b(bool::from(ua.inv_odd_mod(&om).is_some())));
                        chk!(cs, "Odd<Uint>::precompute_inverter.invert (m=1: is_some)", cls, &some, b(bool::from(om.precompute_inverter().invert(&ua).is_some())));
                        chk!(cs, "Odd<Uint>::precompute_inverter.invert_vartime (m=1: is_some)", cls, &some, b(bool::from(om.precompute_inverter().invert_vartime(&ua).is_some())));
                        let params = MontyParams::new_vartime(om);
                        let x = MontyForm::new(&ua, params);
                        chk!(cs, "MontyForm::inv (m=1: is_some)", cls, &some, b(bool::from(x.inv().is_some())));
                        chk!(cs, "MontyForm::inv_vartime (m=1: is_some)", cls, &some, b(bool::from(x.inv_vartime().is_some())));
                        chk!(cs, "MontyForm:Invert::invert (m=1: is_some)", cls, &some, b(bool::from(x.invert().is_some())));
                        chk!(cs, "MontyForm:Invert::invert_vartime (m=1: is_some)", cls, &some, b(bool::from(x.invert_vartime().is_some())));
                        chk!(cs, "MontyParams::precompute_inverter.invert (m=1: is_some)", cls, &some, b(bool::from(params.precompute_inverter().invert(&x).is_some())));
                        chk!(cs, "MontyParams::precompute_inverter.invert_vartime (m=1: is_some)", cls, &some, b(bool::from(params.precompute_inverter().invert_vartime(&x).is_some())));
                    }
                }
            });
        }
        if ctx.want("inv_mod2k") {
            let vals: Vec<Limbs> = { let mut v = if $n <= 2 { full($n, &l9()) } else { runs($n, &l5(), 2) }; v.push(vec![3; $n]); v.push(resize(&[0x1234_5679], $n)); dedup(v) };
            let nk = 64 * $n + 1;
            ctx.par_for("inv_mod2k", &wname, vals.len() * nk, |i, l| {
                let (a, k) = (&vals[i / nk], (i % nk) as u32);
                let ins: [&[u64]; 1] = [a];
                let mut cs = Case::new(l, P, "inv_mod2k", &wname, &ins);
                cs.extra = Some(format!("k={k}"));
                let ua: $t = u::<$n>(a);
                let odd = a[0] & 1 == 1;
                cs.l.nontrivial += (odd && k > 1) as u64;
                let m = pow2(k as usize);
                let exp = if k == 0 { Out::v(&vec![0u64; $n]) } else if odd { Out::v(&from_big(&ref_inv(&(to_big(a) % &m), &m).unwrap(), $n)) } else { Out::None };
                if k == 0 {
                    // modulus 1: only is_some is specified
                    chk!(cs, "Uint::inv_mod2k (k=0: is_some)", "any", &Out::Val(vec![1]), Out::Val(vec![bool::from(ua.inv_mod2k(0).is_some()) as u64]));
                    chk!(cs, "Uint::inv_mod2k_vartime (k=0: is_some)", "any", &Out::Val(vec![1]), Out::Val(vec![bool::from(ua.inv_mod2k_vartime(0).is_some()) as u64]));
                } else {
                    chk!(cs, "Uint::inv_mod2k", "any", &exp, cco(ua.inv_mod2k(k)));
                    chk!(cs, "Uint::inv_mod2k_vartime", "any", &exp, cco(ua.inv_mod2k_vartime(k)));
                    let xa = bx(a);
                    let bo2 = |r: (BoxedUint, crypto_bigint::subtle::Choice)| if bool::from(r.1) { Out::v(&bw(&r.0)) } else { Out::None };
                    chk!(cs, "Boxed::inv_mod2k", "any", &exp, bo2(xa.inv_mod2k(k)));
                    chk!(cs, "Boxed::inv_mod2k_vartime", "any", &exp, bo2(xa.inv_mod2k_vartime(k)));
                }
            });
        }
        if ctx.want("gcd") {
            let mut vals: Vec<BigUint> = (0..=12u32).map(BigUint::from).collect();
            let top = pow2(64 * $n);
            vals.extend((if $n <= 2 { full($n, &l9()) } else { runs($n, &l5(), 2) }).iter().map(|x| to_big(x)));
            for j in (0..64 * $n).step_by(if $n <= 2 { 1 } else { 17 }) {
                vals.push(pow2(j));
                vals.push(pow2(j) * 3u32 % &top);
            }
            for (p, q, r) in [(3u64, 5u64, 7u64), (251, 65537, 4294967291), (18446744073709551557, 3, 5)] {
                vals.push((BigUint::from(p) * q) % &top);
                vals.push((BigUint::from(p) * r) % &top);
                vals.push((BigUint::from(p) * q * r * 4u32) % &top);
            }
            vals.sort();
            vals.dedup();
            // thorough: complete set up to 8 limbs; 16 and 32 limbs (0.6 / 2 ms per gcd) stride-thinned to 260 / 140 values
            let vals: Vec<BigUint> = if ctx.thorough() && $n >= 16 {
                thin(vals.iter().map(|v| from_big(v, $n)).collect(), if $n >= 32 { 140 } else { 260 }).iter().map(|l| to_big(l)).collect()
            } else if ctx.thorough() { vals } else { thin(vals.iter().map(|v| from_big(v, $n)).collect(), if $n <= 4 { 90 } else { 40 }).iter().map(|l| to_big(l)).collect() };
            let k = vals.len();
            ctx.par_for("gcd", &wname, k * k, |i, l| {
                let (a, b) = (&vals[i / k], &vals[i % k]);
                let (al, bl) = (from_big(a, $n), from_big(b, $n));
                let ins: [&[u64]; 2] = [&al, &bl];
                let mut cs = Case::new(l, P, "gcd", &wname, &ins);
                let (ua, ub): ($t, $t) = (u::<$n>(&al), u::<$n>(&bl));
                let g = a.gcd(b);
                cs.l.nontrivial += (!g.is_one() && !a.is_zero() && !b.is_zero()) as u64;
                if a.is_zero() || b.is_zero() {
                    cs.l.class("gcd with zero");
                }
                let e = Out::v(&from_big(&g, $n));
                chk!(cs, "Uint::gcd", "any", &e, Out::v(&w(&ua.gcd(&ub))));
                chk!(cs, "Uint:Gcd::gcd", "any", &e, Out::v(&w(&Gcd::gcd(&ua, &ub))));
                chk!(cs, "Uint:Gcd::gcd_vartime", "any", &e, Out::v(&w(&Gcd::gcd_vartime(&ua, &ub))));
                chk!(cs, "Boxed:Gcd::gcd", "any", &e, Out::v(&bw(&Gcd::gcd(&bx(&al), &bx(&bl)))));
                chk!(cs, "Boxed:Gcd::gcd_vartime", "any", &e, Out::v(&bw(&Gcd::gcd_vartime(&bx(&al), &bx(&bl)))));
                if a.bit(0) {
                    let oa = Odd::new(ua).unwrap();
                    chk!(cs, "Odd<Uint>::gcd_vartime", "any", &e, Out::v(&w(&oa.gcd_vartime(&ub))));
                    let ob = Odd::new(bx(&al)).unwrap();
                    chk!(cs, "Odd<Boxed>:Gcd::gcd", "any", &e, Out::v(&bw(&<Odd<BoxedUint> as Gcd<BoxedUint>>::gcd(&ob, &bx(&bl)))));
                    chk!(cs, "Odd<Boxed>:Gcd::gcd_vartime", "any", &e, Out::v(&bw(&<Odd<BoxedUint> as Gcd<BoxedUint>>::gcd_vartime(&ob, &bx(&bl)))));
                }
                // signed inputs: all four sign combinations (incl. MIN when the magnitude is 2^(BITS-1))
                let half = pow2(64 * $n - 1);
                if *a <= half && *b <= half {
                    for (sa, sb) in [(false, false), (true, false), (false, true), (true, true)] {
                        if (!sa && *a == half) || (!sb && *b == half) {
                            continue;
                        }
                        let ia = if sa { ua.as_int().wrapping_neg() } else { ua.as_int() };
                        let ib = if sb { ub.as_int().wrapping_neg() } else { ub.as_int() };
                        cs.extra = Some(format!("signs=({},{})", if sa { "-" } else { "+" }, if sb { "-" } else { "+" }));
                        chk!(cs, "Int:Gcd::gcd", "any", &e, Out::v(&w(&Gcd::gcd(&ia, &ib))));
                        chk!(cs, "Int:Gcd::gcd_vartime", "any", &e, Out::v(&w(&Gcd::gcd_vartime(&ia, &ib))));
                        if !sb {
                            chk!(cs, "Int:Gcd<Uint>::gcd", "any", &e, Out::v(&w(&Gcd::gcd(&ia, &ub))));
                            chk!(cs, "Int:Gcd<Uint>::gcd_vartime", "any", &e, Out::v(&w(&Gcd::gcd_vartime(&ia, &ub))));
                        }
                        if !sa {
                            chk!(cs, "Uint:Gcd<Int>::gcd", "any", &e, Out::v(&w(&Gcd::gcd(&ua, &ib))));
                            chk!(cs, "Uint:Gcd<Int>::gcd_vartime", "any", &e, Out::v(&w(&Gcd::gcd_vartime(&ua, &ib))));
                        }
                    }
                    cs.extra = None;
                }
            });
        }
    }};
}

fn fam_boxed(ctx: &Ctx) {
    if !ctx.want("boxed_inv") {
        return;
    }
    let lens: Vec<usize> = if ctx.thorough() { (1..=33).collect() } else { vec![1, 2, 3, 5, 9, 17, 33] };
    for n in lens {
        let wname = format!("Boxed<{n}>");
        let mut cs_ = cases(n, ctx);
        if ctx.thorough() && n > 8 && cs_.len() > 12_000 {
            // boxed safegcd costs 1.4 ms (n = 30) per inversion and every case runs ~12 of them: stride-thin to 12 000 cases
            let st = cs_.len().div_ceil(12_000);
            cs_ = cs_.into_iter().step_by(st).collect();
        }
        if n > 3 && !ctx.thorough() {
            cs_ = cs_.into_iter().filter(|(_, m)| m.bits() > 9).step_by(if n > 9 { 7 } else { 2 }).collect();
        }
        ctx.par_for("boxed_inv", &wname, cs_.len(), |i, l| {
            let (a, m) = (&cs_[i].0, &cs_[i].1);
            let (al, ml) = (from_big(a, n), from_big(m, n));
            let ins: [&[u64]; 2] = [&al, &ml];
            let mut cs = Case::new(l, P, "boxed_inv", &wname, &ins);
            let (xa, xm) = (bx(&al), bx(&ml));
            let inv = ref_inv(a, m);
            cs.l.nontrivial += (inv.is_some() && m.bits() > 1) as u64;
            let cls = if m.is_zero() { "zero_modulus" } else if m.is_one() { "modulus_one" } else { "any" };
            let exp = match &inv {
                Some(x) => Out::v(&from_big(x, n)),
                None => Out::None,
            };
            if m.is_one() {
                let some = Out::Val(vec![1]);
                let b = |v: bool| Out::Val(vec![v as u64]);
                chk!(cs, "Boxed::inv_mod (m=1: is_some)", cls, &some, b(bool::from(xa.inv_mod(&xm).is_some())));
                let om = Odd::new(xm.clone()).unwrap();
                chk!(cs, "Boxed::inv_odd_mod (m=1: is_some)", cls, &some, b(bool::from(xa.inv_odd_mod(&om).is_some())));
                chk!(cs, "Odd<Boxed>::precompute_inverter.invert (m=1: is_some)", cls, &some, b(bool::from(om.precompute_inverter().invert(&xa).is_some())));
                chk!(cs, "Odd<Boxed>::precompute_inverter.invert_vartime (m=1: is_some)", cls, &some, b(bool::from(om.precompute_inverter().invert_vartime(&xa).is_some())));
                let params = BoxedMontyParams::new_vartime(om);
                let x = BoxedMontyForm::new(xa.clone(), params.clone());
                chk!(cs, "BoxedMontyForm::invert (m=1: is_some)", cls, &some, b(bool::from(x.invert().is_some())));
                chk!(cs, "BoxedMontyForm::invert_vartime (m=1: is_some)", cls, &some, b(bool::from(x.invert_vartime().is_some())));
                return;
            }
            chk!(cs, "Boxed::inv_mod", cls, &exp, bo(xa.inv_mod(&xm)));
            chk!(cs, "Boxed:InvMod", cls, &exp, bo(InvMod::inv_mod(&xa, &xm)));
            if m.bit(0) {
                let om = Odd::new(xm.clone()).unwrap();
                chk!(cs, "Boxed::inv_odd_mod", cls, &exp, bo(xa.inv_odd_mod(&om)));
                chk!(cs, "Odd<Boxed>::precompute_inverter.invert", cls, &exp, bo(om.precompute_inverter().invert(&xa)));
                chk!(cs, "Odd<Boxed>::precompute_inverter.invert_vartime", cls, &exp, bo(om.precompute_inverter().invert_vartime(&xa)));
                cs.group();
                let am = a % m;
                let expm = match ref_inv(&am, m) {
                    Some(x) => Out::v(&from_big(&x, n)),
                    None => Out::None,
                };
                let params = BoxedMontyParams::new_vartime(om);
                let x = BoxedMontyForm::new(xa.clone(), params.clone());
                let mc = |o: CtOption<BoxedMontyForm>| match Option::<BoxedMontyForm>::from(o) {
                    Some(v) => Out::v(&bw(&v.retrieve())),
                    None => Out::None,
                };
                chk!(cs, "BoxedMontyForm::invert", cls, &expm, mc(x.invert()));
                chk!(cs, "BoxedMontyForm::invert_vartime", cls, &expm, mc(x.invert_vartime()));
                chk!(cs, "BoxedMontyForm:Invert::invert", cls, &expm, mc(Invert::invert(&x)));
                chk!(cs, "BoxedMontyParams::precompute_inverter.invert", cls, &expm, mc(params.precompute_inverter().invert(&x)));
                chk!(cs, "BoxedMontyParams::precompute_inverter.invert_vartime", cls, &expm, mc(params.precompute_inverter().invert_vartime(&x)));
            }
        });
    }
}

impl_modulus!(I64A, U64, "00000000000000fb");
impl_modulus!(I64B, U64, "ffffffffffffffff"); // composite: 3*5*17*257*641*65537*6700417
impl_modulus!(I128A, U128, "0000000000000001000000000000000d");
impl_modulus!(I256A, U256, "ffffffff00000001000000000000000000000000ffffffffffffffffffffffff");
impl_modulus!(I256B, U256, "0000000000000000000000000000000000000000000000000000000000000fff"); // 4095 = 3^2*5*7*13

macro_rules! fam_const {
    ($ctx:expr, $ty:ident, $t:ty, $n:literal) => {{
        let ctx: &Ctx = $ctx;
        if ctx.want("const_inv") {
            let wname = format!("ConstMontyForm<{}>", stringify!($ty));
            let m = to_big(&w(<$ty as ConstMontyParams<$n>>::MODULUS.as_ref()));
            let mut avals: Vec<BigUint> = (0..300u32).map(BigUint::from).collect();
            avals.extend([&m - 1u32, &m - 2u32, &m >> 1, (&m >> 1) + 1u32]);
            for p in [3u32, 5, 7, 13, 17, 257, 641, 65537] {
                avals.push((BigUint::from(p) * 1000003u32) % &m);
            }
            ctx.par_for("const_inv", &wname, avals.len(), |i, l| {
                let a = &avals[i] % &m;
                let al = from_big(&a, $n);
                let ins: [&[u64]; 1] = [&al];
                let mut cs = Case::new(l, P, "const_inv", &wname, &ins);
                let inv = ref_inv(&a, &m);
                cs.l.nontrivial += inv.is_some() as u64;
                let exp = match &inv {
                    Some(x) => Out::v(&from_big(x, $n)),
                    None => Out::None,
                };
                let x = ConstMontyForm::<$ty, $n>::new(&u::<$n>(&al));
                let mo = |o: ConstCtOption<ConstMontyForm<$ty, $n>>| match Option::<ConstMontyForm<$ty, $n>>::from(o) {
                    Some(v) => Out::v(&w(&v.retrieve())),
                    None => Out::None,
                };
                let mc = |o: CtOption<ConstMontyForm<$ty, $n>>| match Option::<ConstMontyForm<$ty, $n>>::from(o) {
                    Some(v) => Out::v(&w(&v.retrieve())),
                    None => Out::None,
                };
                chk!(cs, "ConstMontyForm::inv", "any", &exp, mo(x.inv()));
                chk!(cs, "ConstMontyForm::inv_vartime", "any", &exp, mo(x.inv_vartime()));
                chk!(cs, "ConstMontyForm:Invert::invert", "any", &exp, mc(Invert::invert(&x).into()));
                chk!(cs, "ConstMontyForm:Invert::invert_vartime", "any", &exp, mc(Invert::invert_vartime(&x).into()));
                chk!(cs, "ConstMontyFormInverter::inv", "any", &exp, mo(ConstMontyFormInverter::<$ty, $n>::new().inv(&x)));
                chk!(cs, "ConstMontyFormInverter::inv_vartime", "any", &exp, mo(ConstMontyFormInverter::<$ty, $n>::new().inv_vartime(&x)));
                chk!(cs, "precompute_inverter().invert", "any", &exp, mc(<$ty as ConstMontyParams<$n>>::precompute_inverter().invert(&x)));
                chk!(cs, "precompute_inverter().invert_vartime", "any", &exp, mc(<$ty as ConstMontyParams<$n>>::precompute_inverter().invert_vartime(&x)));
                let _: $t = u::<$n>(&al);
            });
        }
    }};
}

fn main() {
    let ctx = Ctx::from_args(P, "exploration");
    ctx.set_rule("E1: inversion: EVERY (a, m) with m in 0..=257 and a in 0..2m (so a >= m too) for Uint<1,2,3,4>, thinner for wider widths; m = s*2^k for every k in 0..BITS (stride for wide widths in quick) with s in {1,3,generic odd,2^(BITS-k)-1} x a in {0,1,m-1,3,generic,7*2^(k/2),m+1,s}; \
        products of two primes with chosen shared factors; m = 2^BITS-1. Forms: inv_odd_mod, inv_mod, InvMod, inv_mod2k(_vartime) for EVERY k in 0..=BITS, precomputed inverters (with adjuster), Int inversions, MontyForm / BoxedMontyForm / ConstMontyForm inv / invert / inverter objects; some(x) iff gcd(a,m)=1 and x is THE inverse in [0,m). \
        gcd: complete pair products incl. zeros, equal values, 2^j, 3*2^j, p*q vs p*r, all four sign combinations; ct == vartime. Oracle: BigInt extended gcd. Non-trivial: invertible with m >= 2 / gcd > 1.");
    ctx.assume("limb values outside the stated sets are not explored; oracle = num-integer extended_gcd / gcd");
    ctx.assume("m = 1: only is_some is checked (every x satisfies the congruence)");
    let ctx = &ctx;
    fam_uint!(ctx, U64, 1);
    fam_uint!(ctx, U128, 2);
    fam_uint!(ctx, U192, 3);
    fam_uint!(ctx, U256, 4);
    fam_uint!(ctx, U384, 6);
    fam_uint!(ctx, U512, 8);
    fam_uint!(ctx, U1024, 16);
    if ctx.thorough() {
        fam_uint!(ctx, U2048, 32);
    } else {
        let _ = U2048::ZERO;
    }
    fam_boxed(ctx);
    fam_const!(ctx, I64A, U64, 1);
    fam_const!(ctx, I64B, U64, 1);
    fam_const!(ctx, I128A, U128, 2);
    fam_const!(ctx, I256A, U256, 4);
    fam_const!(ctx, I256B, U256, 4);
    std::process::exit(ctx.finish());
}
