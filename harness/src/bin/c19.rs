//! C19 — random sampling respects its range, is unbiased, and is width-independent (engine E4: scripted RNG).
//!
//! The RNG is an environment whose every answer the explorer owns. "Uniform" is decided as an exact counting
//! argument over ALL answers of the RNG for small domains (every admissible value must have the same number of
//! preimages), not as a statistical test.
use crypto_bigint::modular::ConstMontyForm;
use crypto_bigint::{
    impl_modulus, BoxedUint, Int, Limb, NonZero, Odd, Random, RandomBits, RandomBitsError, RandomMod, Uint, Wrapping, U128, U64,
};
use num_bigint::BigUint;
use num_traits::Zero;
use rand_core::{RngCore, SeedableRng};
use std::collections::BTreeMap;
use vcommon::rng::{Exhausted, PanicScriptRng, ScriptRng};
use vcommon::*;

const P: &str = "C19";

fn fail(l: &mut Local, fam: &'static str, form: &str, class: &str, width: &str, inputs: Vec<String>, exp: String, got: String, totality: bool) {
    let props: &[&'static str] = if totality { &[P, "C11"] } else { &[P] };
    l.fail(failure(props, fam, form, class, width.to_string(), inputs, exp, got));
}

/// (a) Limb::random_mod for small moduli: EVERY 1- or 2-byte answer of the RNG.
fn fam_limb_uniform(ctx: &Ctx) {
    let fam = "limb_random_mod_counting";
    if !ctx.want(fam) {
        return;
    }
    let mut ms: Vec<u64> = vec![1, 2, 3, 5, 6, 7, 100, 127, 128, 129, 200, 255, 256, 257, 1000, 4093, 4096, 4097, 40000, 65535];
    for j in 1..16 {
        ms.extend([1u64 << j, (1 << j) - 1, (1 << j) + 1]);
    }
    if ctx.thorough() {
        // thorough: EVERY modulus below 2^16, each against ALL one-/two-byte answers (4.3e9 scripted draws)
        ms.extend(1..65536u64);
    }
    ms.sort();
    ms.dedup();
    ms.retain(|&m| m < 65536 && m > 0);
    ctx.par_for(fam, "Limb", ms.len(), |i, l| {
        let m = ms[i];
        let nz = NonZero::new(Limb(m)).unwrap();
        let nbytes = if m < 256 { 1 } else { 2 };
        let total = 1usize << (8 * nbytes);
        let mut counts: BTreeMap<u64, u64> = BTreeMap::new();
        let mut rejected = 0u64;
        for s in 0..total {
            let bytes = (s as u16).to_le_bytes();
            let mut rng = ScriptRng::from_bytes(&bytes[..nbytes]);
            l.form("Limb::try_random_mod");
            match guard(|| Limb::try_random_mod(&mut rng, &nz)) {
                Ok(Ok(v)) => {
                    if v.0 >= m {
                        fail(l, fam, "Limb::try_random_mod", "range", "Limb", vec![format!("m={m}"), format!("rng bytes={:02x?}", &bytes[..nbytes])], format!("< {m}"), format!("{}", v.0), false);
                        return;
                    }
                    if rng.pos != nbytes {
                        fail(l, fam, "Limb::try_random_mod", "consumption", "Limb", vec![format!("m={m}")], format!("{nbytes} bytes consumed on acceptance"), format!("{}", rng.pos), false);
                        return;
                    }
                    *counts.entry(v.0).or_insert(0) += 1;
                }
                Ok(Err(Exhausted)) => rejected += 1, // candidate rejected, then the script ran out: an observable rejection
                Err(e) => {
                    fail(l, fam, "Limb::try_random_mod", "panic", "Limb", vec![format!("m={m}"), format!("rng bytes={:02x?}", &bytes[..nbytes])], "value or RNG error".into(), e, true);
                    return;
                }
            }
        }
        l.cases += total as u64;
        l.nontrivial += total as u64;
        // every admissible value equally likely: identical preimage counts, none missing
        let per = counts.values().next().copied().unwrap_or(0);
        let uniform = counts.len() as u64 == m && counts.values().all(|&c| c == per) && per > 0;
        if !uniform {
            let missing: Vec<u64> = (0..m).filter(|v| !counts.contains_key(v)).take(5).collect();
            fail(l, fam, "Limb::try_random_mod", "uniformity", "Limb", vec![format!("m={m}")], format!("each of the {m} values produced by the same number of the {total} RNG answers"),
                format!("{} distinct values, missing {:?}, count range {:?}..{:?}, rejected {rejected}", counts.len(), missing, counts.values().min(), counts.values().max()), false);
        }
        if l.samples.len() < 2 {
            l.samples.push(format!("{fam} m={m}: {total} scripts, every value {per} preimages, {rejected} rejections"));
        }
    });
}

/// (b) Uint / BoxedUint random_mod with a small modulus: first word = x | pattern for ALL x < 2^k
fn fam_uint_uniform<const N: usize>(ctx: &Ctx) {
    let fam = "uint_random_mod_counting";
    if !ctx.want(fam) {
        return;
    }
    let wname = format!("Uint<{N}>");
    let mut ms: Vec<u64> = vec![1, 2, 3, 5, 255, 256, 257, 4093, 4095];
    for j in 1..12 {
        ms.extend([1u64 << j, (1 << j) - 1, (1 << j) + 1]);
    }
    if ctx.thorough() {
        // thorough: EVERY modulus up to 4096, and the 16-bit boundary moduli (all 2^16 low-word answers each)
        ms.extend(1..=4096u64);
        ms.extend([1 << 15, (1 << 15) + 1, (1 << 16) - 1, 40000, 65521]);
    }
    ms.sort();
    ms.dedup();
    ctx.par_for(fam, &wname, ms.len() * 3, |i, l| {
        let (m, pat) = (ms[i / 3], i % 3);
        let k = 64 - m.leading_zeros();
        let high: u64 = match pat {
            0 => 0,
            1 => !0u64 << k,
            _ => 0xAAAA_AAAA_AAAA_AAAAu64 & (!0u64).checked_shl(k).unwrap_or(0),
        };
        let ml = resize(&[m], N);
        let nz = NonZero::new(u::<N>(&ml)).unwrap();
        let nzb = NonZero::new(bx(&ml)).unwrap();
        let mut counts: BTreeMap<u64, u64> = BTreeMap::new();
        for x in 0..(1u64 << k) {
            let word = x | high;
            l.form("Uint::try_random_mod");
            l.form("Boxed::try_random_mod");
            let mut r1 = ScriptRng::from_words(&[word]);
            let mut r2 = ScriptRng::from_words(&[word]);
            let a = guard(|| Uint::<N>::try_random_mod(&mut r1, &nz));
            let b = guard(|| BoxedUint::try_random_mod(&mut r2, &nzb));
            match (&a, &b) {
                (Ok(Ok(v)), Ok(Ok(bv))) => {
                    let vw = w(v);
                    if vw != bw(bv) || r1.pos != r2.pos {
                        fail(l, fam, "Uint~Boxed::try_random_mod", "width_independence", &wname, vec![format!("m={m}"), format!("word={word:#x}")], format!("{} @ {}", hex(&vw), r1.pos), format!("{} @ {}", hex(&bw(bv)), r2.pos), false);
                        return;
                    }
                    if to_big(&vw) >= BigUint::from(m) {
                        fail(l, fam, "Uint::try_random_mod", "range", &wname, vec![format!("m={m}"), format!("word={word:#x}")], format!("< {m}"), hex(&vw), false);
                        return;
                    }
                    *counts.entry(vw[0]).or_insert(0) += 1;
                }
                (Ok(Err(_)), Ok(Err(_))) => {}
                _ => {
                    fail(l, fam, "Uint~Boxed::try_random_mod", "any", &wname, vec![format!("m={m}"), format!("word={word:#x}")], "same outcome".into(), format!("{a:?} vs {b:?}"), a.is_err() || b.is_err());
                    return;
                }
            }
        }
        l.cases += 1 << k;
        l.nontrivial += 1 << k;
        let ok = counts.len() as u64 == m && counts.values().all(|&c| c == 1);
        if !ok {
            fail(l, fam, "Uint::try_random_mod", "uniformity", &wname, vec![format!("m={m}"), format!("high pattern {pat}")], format!("each of the {m} values exactly once over all {} low-bit answers", 1u64 << k),
                format!("{} distinct, counts {:?}..{:?}", counts.len(), counts.values().min(), counts.values().max()), false);
        }
    });
}

/// (c) multi-limb moduli: range, acceptance boundary on all-equal scripts, general scripts, fixed == boxed
fn fam_random_mod<const N: usize>(ctx: &Ctx) {
    let fam = "random_mod_scripts";
    if !ctx.want(fam) {
        return;
    }
    let wname = format!("Uint<{N}>");
    let (g1, _) = generic_limbs(ctx.seed);
    // moduli: top limb in {1, 2^j, 2^j+-1, MAX, generic}, low limbs 0 / MAX / generic, 1..=N significant limbs
    let mut ms: Vec<Limbs> = Vec::new();
    for sig in 1..=N {
        for &top in &[1u64, 2, 3, 1 << 31, (1 << 31) + 1, (1 << 32) - 1, TOP, TOP + 1, TOP - 1, MAX, MAX - 1, g1] {
            for &low in &[0u64, MAX, 1, g1] {
                let mut m = vec![0u64; N];
                for x in m.iter_mut().take(sig - 1) {
                    *x = low;
                }
                m[sig - 1] = top;
                if !is_zero(&m) {
                    ms.push(m);
                }
            }
        }
    }
    let ms = dedup(ms);
    let slen = 5;
    ctx.par_for(fam, &wname, ms.len(), |i, l| {
        let ml = &ms[i];
        let m = to_big(ml);
        let nl = ml.iter().rposition(|&x| x != 0).unwrap() + 1;
        let top = ml[nl - 1];
        let mask = !0u64 >> top.leading_zeros();
        let nz = NonZero::new(u::<N>(ml)).unwrap();
        let nzb = NonZero::new(bx(ml)).unwrap();
        let alpha: Vec<u64> = { let mut a = vec![0u64, MAX, top, top.wrapping_add(1), top.wrapping_sub(1), g1, ml[0], ml[0].wrapping_sub(1)]; a.sort(); a.dedup(); a };
        // all-equal scripts: the candidate does not depend on the order limbs are filled
        for &wd in &alpha {
            let script = vec![wd; nl * 6];
            let cand: Limbs = (0..N).map(|j| if j + 1 == nl { wd & mask } else if j < nl { wd } else { 0 }).collect();
            let accept = to_big(&cand) < m;
            let mut r1 = ScriptRng::from_words(&script);
            let mut r2 = ScriptRng::from_words(&script);
            l.cases += 1;
            l.nontrivial += 1;
            l.form("Uint::try_random_mod");
            l.form("Boxed::try_random_mod");
            let a = guard(|| Uint::<N>::try_random_mod(&mut r1, &nz));
            let b = guard(|| BoxedUint::try_random_mod(&mut r2, &nzb));
            let inputs = vec![format!("m={}", hex(ml)), format!("all-equal word {wd:#x}")];
            match &a {
                Ok(Ok(v)) if accept && w(v) == cand && r1.pos == 8 * nl => {
                    l.class("accepted at the first attempt");
                }
                Ok(Err(_)) if !accept => {
                    l.class("every attempt rejected (script exhausted)");
                }
                other => {
                    let is_panic = other.is_err();
                    let cls = if wd & mask == top { "top_limb_equal" } else { "any" };
                    fail(l, fam, "Uint::try_random_mod", cls, &wname, inputs.clone(), if accept { format!("Ok({}) consuming {} bytes", hex(&cand), 8 * nl) } else { "Err(exhausted): candidate >= m".into() }, format!("{other:?} pos={}", r1.pos), is_panic);
                }
            }
            let same = match (&a, &b) {
                (Ok(Ok(x)), Ok(Ok(y))) => w(x) == bw(y) && r1.pos == r2.pos,
                (Ok(Err(_)), Ok(Err(_))) => true,
                _ => false,
            };
            if !same {
                fail(l, fam, "Uint~Boxed::try_random_mod", "width_independence", &wname, inputs, format!("{a:?} @ {}", r1.pos), format!("{b:?} @ {}", r2.pos), false);
            }
        }
        // general scripts: every sequence of length slen over the alphabet, ordered by the number of rejections
        let k = alpha.len();
        let total = k.pow(slen as u32);
        for mut idx in 0..total {
            let mut script = Vec::with_capacity(slen);
            for _ in 0..slen {
                script.push(alpha[idx % k]);
                idx /= k;
            }
            let mut r1 = ScriptRng::from_words(&script);
            let mut r2 = ScriptRng::from_words(&script);
            l.cases += 1;
            l.form("Uint::try_random_mod");
            l.form("Boxed::try_random_mod");
            let a = guard(|| Uint::<N>::try_random_mod(&mut r1, &nz));
            let b = guard(|| BoxedUint::try_random_mod(&mut r2, &nzb));
            let inputs = vec![format!("m={}", hex(ml)), format!("script={}", hex(&script))];
            match &a {
                Ok(Ok(v)) => {
                    if to_big(&w(v)) >= m {
                        fail(l, fam, "Uint::try_random_mod", "range", &wname, inputs.clone(), format!("< {}", hex(ml)), hex(&w(v)), false);
                    }
                    // the value must be made of words of the script (nothing invented): top limb = some word & mask
                    if !script.iter().any(|s| s & mask == w(v)[nl - 1]) {
                        fail(l, fam, "Uint::try_random_mod", "provenance", &wname, inputs.clone(), "top limb = (a script word) & mask".into(), hex(&w(v)), false);
                    }
                }
                Ok(Err(_)) => {}
                Err(e) => fail(l, fam, "Uint::try_random_mod", "panic", &wname, inputs.clone(), "value or RNG error".into(), e.clone(), true),
            }
            let same = match (&a, &b) {
                (Ok(Ok(x)), Ok(Ok(y))) => w(x) == bw(y) && r1.pos == r2.pos,
                (Ok(Err(_)), Ok(Err(_))) => true,
                _ => false,
            };
            if !same {
                fail(l, fam, "Uint~Boxed::try_random_mod", "width_independence", &wname, inputs.clone(), format!("{a:?} @ {}", r1.pos), format!("{b:?} @ {}", r2.pos), false);
            }
            // infallible wrapper agrees (panics only on exhaustion)
            if let Ok(Ok(v)) = &a {
                let r = guard(|| Uint::<N>::random_mod(&mut PanicScriptRng(ScriptRng::from_words(&script)), &nz));
                l.form("Uint::random_mod");
                if r.as_ref().ok().map(w) != Some(w(v)) {
                    fail(l, fam, "Uint::random_mod~try_random_mod", "any", &wname, inputs, hex(&w(v)), format!("{r:?}"), r.is_err());
                }
            }
        }
    });
}

/// (d') BoxedUint::try_random_bits_with_precision for EVERY precision (not only limb multiples) x every bit length:
/// the documented error is decided against the REQUESTED precision, not the limb-rounded allocation.
fn fam_boxed_bits_precision(ctx: &Ctx) {
    let fam = "boxed_bits_precision";
    if !ctx.want(fam) {
        return;
    }
    let maxp: u32 = if ctx.thorough() { 600 } else { 200 };
    ctx.par_for(fam, "Boxed", maxp as usize, |i, l| {
        let p = i as u32 + 1;
        let rounded = p.div_ceil(64) * 64;
        let wname = format!("Boxed precision={p}");
        for bl in 0..=rounded + 2 {
            for (name, byte) in [("ones", 0xffu8), ("probe", 0xa5u8)] {
                l.cases += 1;
                l.nontrivial += (bl > 0) as u64;
                let st = vec![byte; (rounded as usize) / 8 + 24];
                let inputs = vec![format!("bit_length={bl}"), format!("bits_precision={p}"), format!("stream={name}")];
                let mut r = ScriptRng::from_bytes(&st);
                let b = guard(|| BoxedUint::try_random_bits_with_precision(&mut r, bl, p));
                l.form("Boxed::try_random_bits_with_precision");
                l.evals += 1;
                if bl > p {
                    l.class("bit_length > requested precision");
                    match &b {
                        Ok(Err(RandomBitsError::BitLengthTooLarge { bit_length, bits_precision })) if *bit_length == bl && *bits_precision == p => {}
                        other => fail(l, fam, "Boxed::try_random_bits_with_precision", "too_large_unaligned_precision", &wname, inputs, format!("Err(BitLengthTooLarge {{ bit_length: {bl}, bits_precision: {p} }})"), format!("{other:?}"), other.is_err()),
                    }
                    continue;
                }
                match &b {
                    Ok(Ok(v)) => {
                        let vb = to_big(&bw(v));
                        let ok_range = vb < pow2(bl as usize);
                        let ok_ones = name != "ones" || vb == pow2(bl as usize) - 1u32;
                        if !(ok_range && ok_ones && v.bits_precision() == rounded) {
                            fail(l, fam, "Boxed::try_random_bits_with_precision", "value", &wname, inputs, format!("< 2^{bl} (all-ones stream: 2^{bl}-1), precision {rounded}"), format!("{} precision {}", hex(&bw(v)), v.bits_precision()), false);
                        }
                    }
                    other => fail(l, fam, "Boxed::try_random_bits_with_precision", "value", &wname, inputs, "Ok(value)".into(), format!("{other:?}"), other.is_err()),
                }
            }
        }
    });
}

/// (d) random_bits: every bit length, exact value on all-ones / probe / zero streams, errors, fixed == boxed
fn fam_random_bits<const N: usize>(ctx: &Ctx) {
    let fam = "random_bits";
    if !ctx.want(fam) {
        return;
    }
    let wname = format!("Uint<{N}>");
    let bits_ = 64 * N as u32;
    ctx.par_for(fam, &wname, (bits_ + 3) as usize, |i, l| {
        let bl = i as u32;
        let streams: Vec<(&str, Vec<u8>)> = vec![
            ("ones", vec![0xff; 8 * N + 16]),
            ("zeros", vec![0x00; 8 * N + 16]),
            ("probe", (0..8 * N + 16).map(|j| (j * 37 + 11) as u8 | 1).collect()),
            ("alternating", (0..8 * N + 16).map(|j| if j % 2 == 0 { 0xaa } else { 0x55 }).collect()),
        ];
        for (name, st) in &streams {
            l.cases += 1;
            l.nontrivial += (bl > 0) as u64;
            let inputs = vec![format!("bit_length={bl}"), format!("stream={name}")];
            let mut r1 = ScriptRng::from_bytes(st);
            let a = guard(|| Uint::<N>::try_random_bits(&mut r1, bl));
            l.form("Uint::try_random_bits");
            if bl > bits_ {
                match &a {
                    Ok(Err(RandomBitsError::BitLengthTooLarge { bit_length, bits_precision })) if *bit_length == bl && *bits_precision == bits_ => l.class("BitLengthTooLarge"),
                    other => fail(l, fam, "Uint::try_random_bits", "too_large", &wname, inputs.clone(), "Err(BitLengthTooLarge)".into(), format!("{other:?}"), other.is_err()),
                }
                // boxed: precision = bit_length rounded up, so any length is admissible; with_precision enforces it
                let mut r2 = ScriptRng::from_bytes(st);
                let b = guard(|| BoxedUint::try_random_bits_with_precision(&mut r2, bl, bits_));
                l.form("Boxed::try_random_bits_with_precision");
                match &b {
                    Ok(Err(RandomBitsError::BitLengthTooLarge { .. })) => {}
                    other => fail(l, fam, "Boxed::try_random_bits_with_precision", "too_large", &wname, inputs.clone(), "Err(BitLengthTooLarge)".into(), format!("{other:?}"), other.is_err()),
                }
                continue;
            }
            let v = match &a {
                Ok(Ok(v)) => w(v),
                other => {
                    fail(l, fam, "Uint::try_random_bits", "any", &wname, inputs.clone(), "Ok(value)".into(), format!("{other:?}"), other.is_err());
                    continue;
                }
            };
            let vb = to_big(&v);
            if vb >= pow2(bl as usize) {
                fail(l, fam, "Uint::try_random_bits", "range", &wname, inputs.clone(), format!("< 2^{bl}"), hex(&v), false);
            }
            // every admissible bit is free: the all-ones stream must give 2^bl - 1, the zero stream 0
            if *name == "ones" && vb != pow2(bl as usize) - 1u32 {
                fail(l, fam, "Uint::try_random_bits", "all_ones_stream", &wname, inputs.clone(), format!("2^{bl} - 1"), hex(&v), false);
            }
            if *name == "zeros" && !vb.is_zero() {
                fail(l, fam, "Uint::try_random_bits", "zero_stream", &wname, inputs.clone(), "0".into(), hex(&v), false);
            }
            // the value is the little-endian stream prefix, masked (documented platform-independent layout)
            let consumed = r1.pos;
            let prefix = BigUint::from_bytes_le(&st[..consumed]) % pow2(bl as usize);
            if consumed > 0 && vb != prefix {
                fail(l, fam, "Uint::try_random_bits", "stream_layout", &wname, inputs.clone(), format!("LE prefix of {consumed} bytes mod 2^{bl} = {prefix:#x}"), hex(&v), false);
            }
            // fixed == boxed (same precision): same value, same stream position
            let mut r2 = ScriptRng::from_bytes(st);
            let b = guard(|| BoxedUint::try_random_bits_with_precision(&mut r2, bl, bits_));
            l.form("Boxed::try_random_bits_with_precision");
            match &b {
                Ok(Ok(bv)) if bw(bv) == v && r2.pos == r1.pos && bv.bits_precision() == bits_ => {}
                other => fail(l, fam, "Uint~Boxed::try_random_bits", "width_independence", &wname, inputs.clone(), format!("{} @ {}", hex(&v), r1.pos), format!("{other:?} @ {}", r2.pos), other.is_err()),
            }
            // Int and infallible forms
            let mut r3 = ScriptRng::from_bytes(st);
            l.form("Int::try_random_bits");
            match guard(|| Int::<N>::try_random_bits(&mut r3, bl)) {
                Ok(Ok(iv)) if w(iv.as_uint()) == v => {}
                other => fail(l, fam, "Int~Uint::try_random_bits", "any", &wname, inputs.clone(), hex(&v), format!("{other:?}"), other.is_err()),
            }
            l.form("Uint::random_bits");
            match guard(|| Uint::<N>::random_bits(&mut ScriptRng::from_bytes(st), bl)) {
                Ok(x) if w(&x) == v => {}
                other => fail(l, fam, "Uint::random_bits~try_random_bits", "any", &wname, inputs.clone(), hex(&v), format!("{other:?}"), other.is_err()),
            }
            // boxed default precision = bit_length
            l.form("Boxed::try_random_bits");
            match guard(|| BoxedUint::try_random_bits(&mut ScriptRng::from_bytes(st), bl)) {
                Ok(Ok(bv)) if to_big(&bw(&bv)) == vb => {}
                other => fail(l, fam, "Boxed::try_random_bits", "any", &wname, inputs.clone(), hex(&v), format!("{other:?}"), other.is_err()),
            }
        }
        // precision mismatch is an error for the fixed type
        for prec in [bits_ - 1, bits_ + 1, bits_ + 64, 0] {
            l.form("Uint::try_random_bits_with_precision");
            match guard(|| Uint::<N>::try_random_bits_with_precision(&mut ScriptRng::from_bytes(&[0xff; 64]), bl.min(bits_), prec)) {
                Ok(Err(RandomBitsError::BitsPrecisionMismatch { .. })) => l.class("BitsPrecisionMismatch"),
                other => fail(l, fam, "Uint::try_random_bits_with_precision", "precision_mismatch", &wname, vec![format!("bit_length={bl}"), format!("precision={prec}")], "Err(BitsPrecisionMismatch)".into(), format!("{other:?}"), other.is_err()),
            }
            // the signed type must behave exactly like the unsigned one of the same width
            l.form("Int::try_random_bits_with_precision");
            match guard(|| Int::<N>::try_random_bits_with_precision(&mut ScriptRng::from_bytes(&[0xff; 64]), bl.min(bits_), prec)) {
                Ok(Err(RandomBitsError::BitsPrecisionMismatch { .. })) => l.class("BitsPrecisionMismatch"),
                other => fail(l, fam, "Int::try_random_bits_with_precision", "precision_mismatch", &wname, vec![format!("bit_length={bl}"), format!("precision={prec}")], "Err(BitsPrecisionMismatch)".into(), format!("{other:?}"), other.is_err()),
            }
        }
        // both arguments wrong at once (bit length above the width AND a foreign precision) with bit_length <= precision:
        // BitLengthTooLarge is documented as "bit_length is larger than bits_precision", which is false here, so the only
        // documented answer is BitsPrecisionMismatch - for Uint and Int alike, consuming nothing.  (bit_length > precision
        // != BITS fits both descriptions and is not driven.)
        for (blx, prec) in [(bits_ + 1, bits_ + 64), (bits_ + 44, 2 * bits_)] {
            let mut r = ScriptRng::from_bytes(&[0xff; 64]);
            l.form("Uint::try_random_bits_with_precision");
            match guard(|| Uint::<N>::try_random_bits_with_precision(&mut r, blx, prec)) {
                Ok(Err(RandomBitsError::BitsPrecisionMismatch { .. })) if r.pos == 0 => {}
                other => fail(l, fam, "Uint::try_random_bits_with_precision", "both_arguments_wrong", &wname, vec![format!("bit_length={blx}"), format!("precision={prec}")], "Err(BitsPrecisionMismatch), nothing consumed".into(), format!("{other:?} pos={}", r.pos), other.is_err()),
            }
            let mut r = ScriptRng::from_bytes(&[0xff; 64]);
            l.form("Int::try_random_bits_with_precision");
            match guard(|| Int::<N>::try_random_bits_with_precision(&mut r, blx, prec)) {
                Ok(Err(RandomBitsError::BitsPrecisionMismatch { .. })) if r.pos == 0 => {}
                other => fail(l, fam, "Int::try_random_bits_with_precision", "both_arguments_wrong", &wname, vec![format!("bit_length={blx}"), format!("precision={prec}")], "Err(BitsPrecisionMismatch), nothing consumed".into(), format!("{other:?} pos={}", r.pos), other.is_err()),
            }
        }
        // matching precision: Uint and Int agree in value and stream position
        {
            let st = vec![0xa7u8; 8 * N + 16];
            let (mut r1, mut r2) = (ScriptRng::from_bytes(&st), ScriptRng::from_bytes(&st));
            let a = guard(|| Uint::<N>::try_random_bits_with_precision(&mut r1, bl.min(bits_), bits_).map(|x| w(&x)).map_err(|_| ()));
            let b = guard(|| Int::<N>::try_random_bits_with_precision(&mut r2, bl.min(bits_), bits_).map(|x| w(x.as_uint())).map_err(|_| ()));
            l.form("Int::try_random_bits_with_precision");
            if a != b || r1.pos != r2.pos || !matches!(a, Ok(Ok(_))) {
                fail(l, fam, "Int~Uint::try_random_bits_with_precision", "matching_precision", &wname, vec![format!("bit_length={}", bl.min(bits_))], format!("{a:?} @ {}", r1.pos), format!("{b:?} @ {}", r2.pos), a.is_err() || b.is_err());
            }
        }
    });
    // counting argument for random_bits with bit_length <= 12: all 2^16 values of the low two bytes x high patterns
    if ctx.want("random_bits_counting") {
        ctx.par_for("random_bits_counting", &wname, 13, |i, l| {
            let bl = i as u32;
            for hi in [0x00u8, 0xff] {
                let mut counts: BTreeMap<u64, u64> = BTreeMap::new();
                for lo in 0..65536u32 {
                    let mut st = vec![hi; 16];
                    st[0] = lo as u8;
                    st[1] = (lo >> 8) as u8;
                    l.form("Uint::try_random_bits");
                    match guard(|| Uint::<N>::try_random_bits(&mut ScriptRng::from_bytes(&st), bl)) {
                        Ok(Ok(v)) => *counts.entry(w(&v)[0]).or_insert(0) += 1,
                        other => {
                            fail(l, "random_bits_counting", "Uint::try_random_bits", "any", &wname, vec![format!("bit_length={bl}")], "value".into(), format!("{other:?}"), other.is_err());
                            return;
                        }
                    }
                }
                l.cases += 65536;
                l.nontrivial += 65536;
                let want = 65536u64 >> bl;
                let ok = counts.len() as u64 == 1 << bl && counts.values().all(|&c| c == want) && counts.keys().all(|&v| v < 1 << bl);
                if !ok {
                    fail(l, "random_bits_counting", "Uint::try_random_bits", "uniformity", &wname, vec![format!("bit_length={bl}"), format!("high bytes {hi:#x}")], format!("each of 2^{bl} values {want} times"), format!("{} distinct, {:?}..{:?}", counts.len(), counts.values().min(), counts.values().max()), false);
                }
            }
        });
    }
}

impl_modulus!(R64, U64, "00000000000000fb");
impl_modulus!(R128, U128, "0000000000000001000000000000000d");

/// (e) Random for Uint / Int / Wrapping / NonZero / Odd / ConstMontyForm, and real ChaCha streams
fn fam_random<const N: usize>(ctx: &Ctx) {
    let fam = "random_trait";
    if !ctx.want(fam) {
        return;
    }
    let wname = format!("Uint<{N}>");
    let alpha = l9();
    let k = alpha.len();
    let total = k.pow(N.min(3) as u32);
    ctx.par_for(fam, &wname, total, |mut idx, l| {
        let mut script: Vec<u64> = Vec::new();
        for _ in 0..N.min(3) {
            script.push(alpha[idx % k]);
            idx /= k;
        }
        script.resize(N, 0x1111_1111_1111_1111);
        let mut long = script.clone();
        long.extend(vec![3u64; 4 * N]);
        l.cases += 1;
        l.nontrivial += 1;
        let inputs = vec![format!("script={}", hex(&script))];
        // Uint::random consumes exactly N words, limb i = word i
        let mut r = ScriptRng::from_words(&long);
        l.form("Uint::try_random");
        match guard(|| Uint::<N>::try_random(&mut r)) {
            Ok(Ok(v)) if w(&v) == script && r.pos == 8 * N => {}
            other => fail(l, fam, "Uint::try_random", "any", &wname, inputs.clone(), format!("{} consuming {} bytes", hex(&script), 8 * N), format!("{other:?} pos={}", r.pos), other.is_err()),
        }
        l.form("Uint::random");
        match guard(|| Uint::<N>::random(&mut PanicScriptRng(ScriptRng::from_words(&long)))) {
            Ok(v) if w(&v) == script => {}
            other => fail(l, fam, "Uint::random", "any", &wname, inputs.clone(), hex(&script), format!("{other:?}"), other.is_err()),
        }
        l.form("Int::try_random");
        match guard(|| Int::<N>::try_random(&mut ScriptRng::from_words(&long))) {
            Ok(Ok(v)) if w(v.as_uint()) == script => {}
            other => fail(l, fam, "Int::try_random", "any", &wname, inputs.clone(), hex(&script), format!("{other:?}"), other.is_err()),
        }
        l.form("Wrapping<Uint>::try_random");
        match guard(|| Wrapping::<Uint<N>>::try_random(&mut ScriptRng::from_words(&long))) {
            Ok(Ok(v)) if w(&v.0) == script => {}
            other => fail(l, fam, "Wrapping<Uint>::try_random", "any", &wname, inputs.clone(), hex(&script), format!("{other:?}"), other.is_err()),
        }
        // wrapper invariants
        l.form("NonZero<Uint>::try_random");
        match guard(|| NonZero::<Uint<N>>::try_random(&mut ScriptRng::from_words(&long))) {
            Ok(Ok(v)) if !is_zero(&w(v.as_ref())) => {}
            other => fail(l, fam, "NonZero<Uint>::try_random", "invariant", &wname, inputs.clone(), "non-zero".into(), format!("{other:?}"), other.is_err()),
        }
        l.form("Odd<Uint>::try_random");
        match guard(|| Odd::<Uint<N>>::try_random(&mut ScriptRng::from_words(&long))) {
            Ok(Ok(v)) if w(v.as_ref())[0] & 1 == 1 && w(v.as_ref())[1..] == script[1..] => {}
            other => fail(l, fam, "Odd<Uint>::try_random", "invariant", &wname, inputs.clone(), "odd, upper limbs = stream".into(), format!("{other:?}"), other.is_err()),
        }
        for bl in [1u32, 63, 64, 65, 64 * N as u32] {
            l.form("Odd::<Boxed>::random");
            match guard(|| Odd::<BoxedUint>::random(&mut ScriptRng::from_words(&long), bl)) {
                Ok(v) if bw(v.as_ref())[0] & 1 == 1 && to_big(&bw(v.as_ref())) < pow2(bl as usize) => {}
                other => fail(l, fam, "Odd::<Boxed>::random", "invariant", &wname, vec![inputs[0].clone(), format!("bit_length={bl}")], format!("odd and < 2^{bl}"), format!("{other:?}"), other.is_err()),
            }
        }
    });
    // rejection of zero candidates: z consecutive all-zero candidates (z = 0..=3) must all be skipped
    ctx.seq(fam, &format!("{wname} NonZero after z zero candidates"), |l| {
        for z in 0..=3usize {
            for first in [7u64, 1, MAX] {
                l.cases += 1;
                l.nontrivial += (z > 0) as u64;
                let mut words = vec![0u64; z * N];
                let mut cand = vec![0u64; N];
                cand[N - 1] = first;
                words.extend(&cand);
                words.extend(vec![0x2222_2222_2222_2222u64; N]);
                let inputs = vec![format!("zero candidates={z}"), format!("next candidate={}", hex(&cand))];
                let mut r = ScriptRng::from_words(&words);
                l.form("NonZero<Uint>::try_random");
                match guard(|| NonZero::<Uint<N>>::try_random(&mut r)) {
                    Ok(Ok(v)) if w(v.as_ref()) == cand && r.pos == 8 * N * (z + 1) => {}
                    other => fail(l, fam, "NonZero<Uint>::try_random", "zero_candidates", &wname, inputs.clone(), format!("{} after {} bytes", hex(&cand), 8 * N * (z + 1)), format!("{:?} pos={}", other.as_ref().map(|r| r.as_ref().map(|v| hex(&w(v.as_ref()))).map_err(|_| "exhausted")), r.pos), other.is_err()),
                }
                if N == 1 {
                    let mut r = ScriptRng::from_words(&words);
                    l.form("NonZero<Limb>::try_random");
                    match guard(|| NonZero::<Limb>::try_random(&mut r)) {
                        Ok(Ok(v)) if v.as_ref().0 == first && r.pos == 8 * (z + 1) => {}
                        other => fail(l, fam, "NonZero<Limb>::try_random", "zero_candidates", &wname, inputs.clone(), format!("{first:#x} after {} bytes", 8 * (z + 1)), format!("{:?} pos={}", other.as_ref().map(|r| r.as_ref().map(|v| v.as_ref().0).map_err(|_| "exhausted")), r.pos), other.is_err()),
                    }
                }
            }
        }
    });
    // ConstMontyForm::random: below the modulus (in Z/mZ), consumes like random_mod
    ctx.seq(fam, "ConstMontyForm", |l| {
        for wd in l13(ctx.seed) {
            for wd2 in [0u64, 1, 12, 13, 14, MAX] {
                let script = vec![wd, wd2, wd, wd2, 5, 5, 5, 5];
                l.cases += 1;
                l.form("ConstMontyForm::try_random");
                // same sampler as Uint::random_mod: value and stream position must coincide (a reduce-after-draw
                // implementation stays in range but is biased and consumes the stream differently)
                {
                    let (mut ra, mut rb) = (ScriptRng::from_words(&script), ScriptRng::from_words(&script));
                    let a = guard(|| ConstMontyForm::<R64, 1>::try_random(&mut ra).map(|v| v.retrieve().as_words()[0]).map_err(|_| ()));
                    let nz = NonZero::new(Uint::<1>::from_u64(251)).unwrap();
                    let b = guard(|| Uint::<1>::try_random_mod(&mut rb, &nz).map(|v| v.as_words()[0]).map_err(|_| ()));
                    l.form("ConstMontyForm::try_random ~ Uint::try_random_mod");
                    if a != b || ra.pos != rb.pos {
                        fail(l, fam, "ConstMontyForm<R64>::try_random ~ Uint::try_random_mod", "same_sampler", "U64", vec![format!("script={}", hex(&script))], format!("{b:?} @ {}", rb.pos), format!("{a:?} @ {}", ra.pos), a.is_err());
                    }
                }
                match guard(|| ConstMontyForm::<R64, 1>::try_random(&mut ScriptRng::from_words(&script))) {
                    Ok(Ok(v)) if v.retrieve().as_words()[0] < 251 => {}
                    other => fail(l, fam, "ConstMontyForm<R64>::try_random", "range", "U64", vec![format!("script={}", hex(&script))], "< 251".into(), format!("{:?}", other.map(|r| r.map(|v| v.retrieve()))), false),
                }
                match guard(|| ConstMontyForm::<R128, 2>::try_random(&mut ScriptRng::from_words(&script))) {
                    Ok(Ok(v)) if to_big(&w(&v.retrieve())) < (pow2(64) + 13u32) => {}
                    Ok(Err(_)) => {}
                    other => fail(l, fam, "ConstMontyForm<R128>::try_random", "range", "U128", vec![format!("script={}", hex(&script))], "< 2^64+13".into(), format!("{:?}", other.map(|r| r.map(|v| v.retrieve()))), false),
                }
            }
        }
    });
    // deterministic ChaCha streams from many seeds: range + fixed == boxed on real streams
    let nseeds = if ctx.thorough() { 20000 } else { 2000 };
    ctx.par_for("chacha_streams", &wname, nseeds, |s, l| {
        let (g1, _) = generic_limbs(ctx.seed);
        let mods: Vec<Limbs> = vec![resize(&[3], N), resize(&[g1 | 1], N), { let mut m = vec![MAX; N]; m[N - 1] = 1; m }, vec![MAX; N], { let mut m = vec![0; N]; m[N - 1] = TOP + 1; m }];
        for ml in &mods {
            let mut r1 = rand_chacha::ChaCha8Rng::seed_from_u64(s as u64);
            let mut r2 = rand_chacha::ChaCha8Rng::seed_from_u64(s as u64);
            l.cases += 1;
            l.form("Uint::random_mod(chacha)");
            let a = Uint::<N>::random_mod(&mut r1, &NonZero::new(u::<N>(ml)).unwrap());
            let b = BoxedUint::random_mod(&mut r2, &NonZero::new(bx(ml)).unwrap());
            if to_big(&w(&a)) >= to_big(ml) || w(&a) != bw(&b) || r1.next_u64() != r2.next_u64() {
                fail(l, "chacha_streams", "Uint~Boxed::random_mod", "any", &wname, vec![format!("seed={s}"), format!("m={}", hex(ml))], "in range, identical, same stream position".into(), format!("{} vs {}", hex(&w(&a)), hex(&bw(&b))), false);
            }
        }
    });
}

fn main() {
    let ctx = Ctx::from_args(P, "exploration");
    ctx.set_rule("E4 scripted RNG: (a) Limb::random_mod for moduli < 2^16: EVERY 1-/2-byte RNG answer (256 / 65536 scripts per modulus): no value >= m, every v < m has the same number of preimages; \
        (b) Uint/BoxedUint random_mod with bits(m) <= 12: first word x | pattern for ALL x < 2^k x 3 high patterns: each v < m exactly once; (c) multi-limb moduli (top limb 1, 2^j, 2^j+-1, MAX, generic; lows 0/MAX/generic): all-equal scripts decide the acceptance boundary exactly, all scripts of length 4/5 over an 8-word alphabet: range, provenance, fixed == boxed (value and stream position), infallible == fallible; \
        (d) random_bits for EVERY bit_length 0..=BITS+2 on all-ones / zero / probe / alternating streams: range, all-ones gives 2^bl-1, little-endian stream layout, BitLengthTooLarge / BitsPrecisionMismatch exactly, Uint == Int == BoxedUint; counting argument for bit_length <= 12 over all 2^16 low-byte answers; \
        (e) Random for Uint/Int/Wrapping/NonZero/Odd/ConstMontyForm; ChaCha8 streams from 200/2000 seeds (range + width independence only). Non-trivial: every scripted case.");
    ctx.assume("uniformity is decided by exact preimage counting only for the small domains listed (moduli < 2^16 for Limb, < 2^12 for Uint/BoxedUint, bit lengths <= 12); for multi-limb moduli only range, acceptance boundary and width independence are decided");
    ctx.assume("the statistical test with a 1e-12 false-alarm bound of the property text is replaced by this counting argument (sampling is outside the technique family)");
    let ctx = &ctx;
    fam_limb_uniform(ctx);
    fam_uint_uniform::<1>(ctx);
    fam_uint_uniform::<2>(ctx);
    fam_uint_uniform::<4>(ctx);
    fam_random_mod::<1>(ctx);
    fam_random_mod::<2>(ctx);
    fam_random_mod::<3>(ctx);
    fam_random_bits::<1>(ctx);
    fam_random_bits::<2>(ctx);
    fam_random_bits::<4>(ctx);
    fam_random_bits::<8>(ctx);
    fam_boxed_bits_precision(ctx);
    fam_random::<1>(ctx);
    fam_random::<2>(ctx);
    fam_random::<4>(ctx);
    fam_random::<8>(ctx);
    std::process::exit(ctx.finish());
}
