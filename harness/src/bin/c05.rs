//! C05 — shifts and bit queries agree with the binary expansion for every shift amount (engine E1).
use crypto_bigint::subtle::{Choice, CtOption};
use crypto_bigint::{
    BitOps, BoxedUint, ConstCtOption, Int, Limb, ShlVartime, ShrVartime, Uint, Wrapping, WrappingShl, WrappingShr,
};
use vcommon::*;

const P: &str = "C05";

macro_rules! chk {
    ($cs:expr, $name:expr, $exp:expr, $e:expr) => {
        $cs.check($name, "any", $exp, guard(|| $e))
    };
}
/// where the implemented trait's own documentation says "masking" and the inherent doc says "zero": accept both
fn check_any(cs: &mut Case, form: &'static str, acceptable: &[Out], got: Result<Out, String>) {
    let g = match &got {
        Ok(o) => o.clone(),
        Err(_) => Out::Panic,
    };
    if acceptable.contains(&g) {
        cs.l.form(form);
    } else {
        cs.group();
        cs.check(form, "any", &acceptable[0], got);
    }
}

// independent reference: shifts on little-endian u64 vectors
fn ref_shl(x: &[u64], s: usize) -> Limbs {
    let n = x.len();
    let mut out = vec![0u64; n];
    if s >= 64 * n {
        return out;
    }
    let (ls, bs) = (s / 64, s % 64);
    for i in ls..n {
        let lo = x[i - ls] << bs;
        let hi = if bs > 0 && i > ls { x[i - ls - 1] >> (64 - bs) } else { 0 };
        out[i] = lo | hi;
    }
    out
}
fn ref_shr(x: &[u64], s: usize, fill: u64) -> Limbs {
    let n = x.len();
    let get = |i: usize| if i < n { x[i] } else { fill };
    if s >= 64 * n {
        return vec![fill; n];
    }
    let (ls, bs) = (s / 64, s % 64);
    (0..n).map(|i| if bs == 0 { get(i + ls) } else { (get(i + ls) >> bs) | (get(i + ls + 1) << (64 - bs)) }).collect()
}

fn ucopt<const N: usize>(o: ConstCtOption<Uint<N>>) -> Out {
    match Option::<Uint<N>>::from(o) {
        Some(x) => Out::Val(w(&x)),
        None => Out::None,
    }
}
fn uopt<const N: usize>(o: CtOption<Uint<N>>) -> Out {
    match Option::<Uint<N>>::from(o) {
        Some(x) => Out::Val(w(&x)),
        None => Out::None,
    }
}
fn icopt<const N: usize>(o: ConstCtOption<Int<N>>) -> Out {
    match Option::<Int<N>>::from(o) {
        Some(x) => Out::Val(w(x.as_uint())),
        None => Out::None,
    }
}
fn iopt<const N: usize>(o: CtOption<Int<N>>) -> Out {
    match Option::<Int<N>>::from(o) {
        Some(x) => Out::Val(w(x.as_uint())),
        None => Out::None,
    }
}
fn bopt(o: CtOption<BoxedUint>) -> Out {
    match Option::<BoxedUint>::from(o) {
        Some(x) => Out::Val(bw(&x)),
        None => Out::None,
    }
}

fn values(n: usize, ctx: &Ctx) -> Vec<Limbs> {
    let th = ctx.thorough();
    let mut v: Vec<Limbs> = if n <= 2 { full(n, &l9()) } else { runs(n, &l5(), 2) };
    let b = bits(n);
    v.extend(if th || n <= 4 { b } else { thin(b, 400) });
    // runs of ones ending at every limb boundary
    for j in 1..=n {
        v.push(from_big(&(pow2(64 * j) - 1u32), n));
        let mut t = vec![0u64; n];
        for x in t.iter_mut().skip(n - j) {
            *x = MAX;
        }
        v.push(t);
    }
    let (g1, g2) = generic_limbs(ctx.seed);
    v.push((0..n).map(|i| if i % 2 == 0 { g1 } else { g2 }.rotate_left(i as u32)).collect());
    let v = dedup(v);
    if th { v } else { thin(v, if n >= 16 { 300 } else { 700 }) }
}

fn shifts(bits_: usize) -> Vec<u32> {
    let mut s: Vec<u32> = (0..=(2 * bits_ + 1) as u32).collect();
    s.push(u32::MAX);
    s.push(i32::MAX as u32);
    s
}

fn fam_uint<const N: usize>(ctx: &Ctx) {
    let wname = format!("Uint<{N}>");
    let vals = values(N, ctx);
    let sh = shifts(64 * N);
    let ks = sh.len();
    let bits_ = 64 * N;
    if ctx.want("uint_shift") {
        ctx.par_for("uint_shift", &wname, vals.len() * ks, |i, l| {
            let (a, s) = (&vals[i / ks], sh[i % ks]);
            let ins: [&[u64]; 1] = [a];
            let mut cs = Case::new(l, P, "uint_shift", &wname, &ins);
            cs.extra = Some(format!("shift={s}"));
            let ua = u::<N>(a);
            let su = s as usize;
            let ovf = su >= bits_;
            cs.l.nontrivial += (!ovf && s > 0 && !is_zero(a)) as u64;
            if !ovf && s % 64 == 0 {
                cs.l.class("shift multiple of limb size");
            }
            if su == bits_ - 1 || su == bits_ {
                cs.l.class("shift = BITS-1 / BITS");
            }
            for left in [true, false] {
                let r = if left { ref_shl(a, su.min(bits_)) } else { ref_shr(a, su.min(bits_), 0) };
                let pk = if ovf { Out::Panic } else { Out::v(&r) };
                let op = if ovf { Out::None } else { Out::v(&r) };
                let wr = Out::v(&r); // zero on overflow by construction of the reference
                cs.group();
                if left {
                    chk!(cs, "Uint::shl", &pk, Out::v(&w(&ua.shl(s))));
                    chk!(cs, "Uint::shl_vartime", &pk, Out::v(&w(&ua.shl_vartime(s))));
                    chk!(cs, "&Uint<<u32", &pk, Out::v(&w(&(&ua << s))));
                    chk!(cs, "Uint<<u32", &pk, Out::v(&w(&(ua << s))));
                    chk!(cs, "Uint<<usize", &pk, Out::v(&w(&(ua << (s as usize)))));
                    chk!(cs, "&Uint<<usize", &pk, Out::v(&w(&(&ua << (s as usize)))));
                    if s <= i32::MAX as u32 {
                        chk!(cs, "Uint<<i32", &pk, Out::v(&w(&(ua << (s as i32)))));
                        chk!(cs, "&Uint<<i32", &pk, Out::v(&w(&(&ua << (s as i32)))));
                    }
                    chk!(cs, "Uint<<=u32", &pk, {
                        let mut x = ua;
                        x <<= s;
                        Out::v(&w(&x))
                    });
                    chk!(cs, "Uint<<=usize", &pk, {
                        let mut x = ua;
                        x <<= s as usize;
                        Out::v(&w(&x))
                    });
                    cs.group();
                    chk!(cs, "Uint::overflowing_shl", &op, ucopt(ua.overflowing_shl(s)));
                    chk!(cs, "Uint::overflowing_shl_vartime", &op, ucopt(ua.overflowing_shl_vartime(s)));
                    chk!(cs, "Uint:ShlVartime::overflowing", &op, uopt(ShlVartime::overflowing_shl_vartime(&ua, s)));
                    cs.group();
                    chk!(cs, "Uint::wrapping_shl", &wr, Out::v(&w(&ua.wrapping_shl(s))));
                    chk!(cs, "Uint::wrapping_shl_vartime", &wr, Out::v(&w(&ua.wrapping_shl_vartime(s))));
                    chk!(cs, "Uint:WrappingShl", &wr, Out::v(&w(&WrappingShl::wrapping_shl(&ua, s))));
                    chk!(cs, "Uint:ShlVartime::wrapping", &wr, Out::v(&w(&ShlVartime::wrapping_shl_vartime(&ua, s))));
                    chk!(cs, "Wrapping<Uint><<u32", &wr, Out::v(&w(&(Wrapping(ua) << s).0)));
                    chk!(cs, "&Wrapping<Uint><<u32", &wr, Out::v(&w(&(&Wrapping(ua) << s).0)));
                } else {
                    chk!(cs, "Uint::shr", &pk, Out::v(&w(&ua.shr(s))));
                    chk!(cs, "Uint::shr_vartime", &pk, Out::v(&w(&ua.shr_vartime(s))));
                    chk!(cs, "&Uint>>u32", &pk, Out::v(&w(&(&ua >> s))));
                    chk!(cs, "Uint>>u32", &pk, Out::v(&w(&(ua >> s))));
                    chk!(cs, "Uint>>usize", &pk, Out::v(&w(&(ua >> (s as usize)))));
                    chk!(cs, "&Uint>>usize", &pk, Out::v(&w(&(&ua >> (s as usize)))));
                    if s <= i32::MAX as u32 {
                        chk!(cs, "Uint>>i32", &pk, Out::v(&w(&(ua >> (s as i32)))));
                        chk!(cs, "&Uint>>i32", &pk, Out::v(&w(&(&ua >> (s as i32)))));
                    }
                    chk!(cs, "Uint>>=u32", &pk, {
                        let mut x = ua;
                        x >>= s;
                        Out::v(&w(&x))
                    });
                    chk!(cs, "Uint>>=usize", &pk, {
                        let mut x = ua;
                        x >>= s as usize;
                        Out::v(&w(&x))
                    });
                    cs.group();
                    chk!(cs, "Uint::overflowing_shr", &op, ucopt(ua.overflowing_shr(s)));
                    chk!(cs, "Uint::overflowing_shr_vartime", &op, ucopt(ua.overflowing_shr_vartime(s)));
                    chk!(cs, "Uint:ShrVartime::overflowing", &op, uopt(ShrVartime::overflowing_shr_vartime(&ua, s)));
                    cs.group();
                    chk!(cs, "Uint::wrapping_shr", &wr, Out::v(&w(&ua.wrapping_shr(s))));
                    chk!(cs, "Uint::wrapping_shr_vartime", &wr, Out::v(&w(&ua.wrapping_shr_vartime(s))));
                    chk!(cs, "Uint:WrappingShr", &wr, Out::v(&w(&WrappingShr::wrapping_shr(&ua, s))));
                    chk!(cs, "Uint:ShrVartime::wrapping", &wr, Out::v(&w(&ShrVartime::wrapping_shr_vartime(&ua, s))));
                    chk!(cs, "Wrapping<Uint>>>u32", &wr, Out::v(&w(&(Wrapping(ua) >> s).0)));
                    chk!(cs, "&Wrapping<Uint>>>u32", &wr, Out::v(&w(&(&Wrapping(ua) >> s).0)));
                }
            }
            // negative i32 shift amounts are invalid: documented `expect("invalid shift")`
            if s == 0 {
                cs.group();
                chk!(cs, "Uint<<i32(-1)", &Out::Panic, Out::v(&w(&(ua << -1i32))));
                chk!(cs, "Uint>>i32(-1)", &Out::Panic, Out::v(&w(&(ua >> -1i32))));
            }
        });
    }
    // ---- double-width shifts: (lo, hi) as one 2N-limb value; overflow iff s >= 2*BITS
    if ctx.want("uint_shift_wide") {
        let his: Vec<Limbs> = thin(vals.clone(), if ctx.thorough() { 60 } else { 12 });
        let los: Vec<Limbs> = thin(vals.clone(), if ctx.thorough() { 80 } else { 25 });
        let (kh, kl) = (his.len(), los.len());
        ctx.par_for("uint_shift_wide", &wname, kh * kl * ks, |i, l| {
            let (hi_, lo_, s) = (&his[i / (kl * ks)], &los[(i / ks) % kl], sh[i % ks]);
            let ins: [&[u64]; 2] = [lo_, hi_];
            let mut cs = Case::new(l, P, "uint_shift_wide", &wname, &ins);
            cs.extra = Some(format!("shift={s}"));
            let mut wide = lo_.clone();
            wide.extend_from_slice(hi_);
            let su = s as usize;
            let ovf = su >= 2 * bits_;
            cs.l.nontrivial += (!ovf && s > 0) as u64;
            let (ul, uh) = (u::<N>(lo_), u::<N>(hi_));
            let conv = |o: ConstCtOption<(Uint<N>, Uint<N>)>| match Option::<(Uint<N>, Uint<N>)>::from(o) {
                Some((a, b)) => {
                    let mut v = w(&a);
                    v.extend(w(&b));
                    Out::Val(v)
                }
                None => Out::None,
            };
            let el = if ovf { Out::None } else { Out::v(&ref_shl(&wide, su)) };
            chk!(cs, "Uint::overflowing_shl_vartime_wide", &el, conv(Uint::overflowing_shl_vartime_wide((ul, uh), s)));
            cs.group();
            let er = if ovf { Out::None } else { Out::v(&ref_shr(&wide, su, 0)) };
            chk!(cs, "Uint::overflowing_shr_vartime_wide", &er, conv(Uint::overflowing_shr_vartime_wide((ul, uh), s)));
        });
    }
    // ---- Int: same bit pattern for shl, arithmetic (sign-filling) shr
    if ctx.want("int_shift") {
        ctx.par_for("int_shift", &format!("Int<{N}>"), vals.len() * ks, |i, l| {
            let (a, s) = (&vals[i / ks], sh[i % ks]);
            let ins: [&[u64]; 1] = [a];
            let wn = format!("Int<{N}>");
            let mut cs = Case::new(l, P, "int_shift", &wn, &ins);
            cs.extra = Some(format!("shift={s}"));
            let ia: Int<N> = u::<N>(a).as_int();
            let su = s as usize;
            let ovf = su >= bits_;
            let neg = a[N - 1] >> 63 == 1;
            let fill = if neg { MAX } else { 0 };
            cs.l.nontrivial += (!ovf && s > 0 && neg) as u64;
            let iw = |x: &Int<N>| w(x.as_uint());
            {
                let r = ref_shl(a, su.min(bits_));
                let pk = if ovf { Out::Panic } else { Out::v(&r) };
                let op = if ovf { Out::None } else { Out::v(&r) };
                let wr = Out::v(&r);
                cs.group();
                chk!(cs, "Int::shl", &pk, Out::v(&iw(&ia.shl(s))));
                chk!(cs, "Int::shl_vartime", &pk, Out::v(&iw(&ia.shl_vartime(s))));
                chk!(cs, "Int<<u32", &pk, Out::v(&iw(&(ia << s))));
                chk!(cs, "&Int<<u32", &pk, Out::v(&iw(&(&ia << s))));
                chk!(cs, "Int<<usize", &pk, Out::v(&iw(&(ia << (s as usize)))));
                if s <= i32::MAX as u32 {
                    chk!(cs, "Int<<i32", &pk, Out::v(&iw(&(ia << (s as i32)))));
                }
                chk!(cs, "Int<<=u32", &pk, {
                    let mut x = ia;
                    x <<= s;
                    Out::v(&iw(&x))
                });
                cs.group();
                chk!(cs, "Int::overflowing_shl", &op, icopt(ia.overflowing_shl(s)));
                chk!(cs, "Int::overflowing_shl_vartime", &op, icopt(ia.overflowing_shl_vartime(s)));
                chk!(cs, "Int:ShlVartime::overflowing", &op, iopt(ShlVartime::overflowing_shl_vartime(&ia, s)));
                cs.group();
                chk!(cs, "Int::wrapping_shl", &wr, Out::v(&iw(&ia.wrapping_shl(s))));
                chk!(cs, "Int::wrapping_shl_vartime", &wr, Out::v(&iw(&ia.wrapping_shl_vartime(s))));
                chk!(cs, "Int:WrappingShl", &wr, Out::v(&iw(&WrappingShl::wrapping_shl(&ia, s))));
                chk!(cs, "Int:ShlVartime::wrapping", &wr, Out::v(&iw(&ShlVartime::wrapping_shl_vartime(&ia, s))));
                chk!(cs, "Wrapping<Int><<u32", &wr, Out::v(&iw(&(Wrapping(ia) << s).0)));
            }
            {
                let r = ref_shr(a, su.min(bits_), fill);
                let pk = if ovf { Out::Panic } else { Out::v(&r) };
                let op = if ovf { Out::None } else { Out::v(&r) };
                let wr = Out::v(&r); // sign fill on overflow
                cs.group();
                chk!(cs, "Int::shr", &pk, Out::v(&iw(&ia.shr(s))));
                chk!(cs, "Int::shr_vartime", &pk, Out::v(&iw(&ia.shr_vartime(s))));
                chk!(cs, "Int>>u32", &pk, Out::v(&iw(&(ia >> s))));
                chk!(cs, "&Int>>u32", &pk, Out::v(&iw(&(&ia >> s))));
                chk!(cs, "Int>>usize", &pk, Out::v(&iw(&(ia >> (s as usize)))));
                if s <= i32::MAX as u32 {
                    chk!(cs, "Int>>i32", &pk, Out::v(&iw(&(ia >> (s as i32)))));
                }
                chk!(cs, "Int>>=u32", &pk, {
                    let mut x = ia;
                    x >>= s;
                    Out::v(&iw(&x))
                });
                cs.group();
                chk!(cs, "Int::overflowing_shr", &op, icopt(ia.overflowing_shr(s)));
                chk!(cs, "Int::overflowing_shr_vartime", &op, icopt(ia.overflowing_shr_vartime(s)));
                chk!(cs, "Int:ShrVartime::overflowing", &op, iopt(ShrVartime::overflowing_shr_vartime(&ia, s)));
                cs.group();
                chk!(cs, "Int::wrapping_shr", &wr, Out::v(&iw(&ia.wrapping_shr(s))));
                chk!(cs, "Int::wrapping_shr_vartime", &wr, Out::v(&iw(&ia.wrapping_shr_vartime(s))));
                chk!(cs, "Int:WrappingShr", &wr, Out::v(&iw(&WrappingShr::wrapping_shr(&ia, s))));
                chk!(cs, "Int:ShrVartime::wrapping", &wr, Out::v(&iw(&ShrVartime::wrapping_shr_vartime(&ia, s))));
                chk!(cs, "Wrapping<Int>>>u32", &wr, Out::v(&iw(&(Wrapping(ia) >> s).0)));
            }
        });
    }
    // ---- bit queries
    if ctx.want("uint_bits") {
        let all = if ctx.thorough() { vals.clone() } else { thin(vals.clone(), 250) };
        let nidx = bits_ + 2;
        ctx.par_for("uint_bits", &wname, all.len() * nidx, |i, l| {
            let (a, idx) = (&all[i / nidx], i % nidx);
            let ins: [&[u64]; 1] = [a];
            let mut cs = Case::new(l, P, "uint_bits", &wname, &ins);
            cs.extra = Some(format!("index={idx}"));
            let ua = u::<N>(a);
            let bit = idx < bits_ && (a[idx / 64] >> (idx % 64)) & 1 == 1;
            cs.l.nontrivial += (idx < bits_) as u64;
            let eb = Out::Val(vec![bit as u64]);
            chk!(cs, "Uint::bit", &eb, Out::Val(vec![bool::from(ua.bit(idx as u32)) as u64]));
            chk!(cs, "Uint::bit_vartime", &eb, Out::Val(vec![ua.bit_vartime(idx as u32) as u64]));
            chk!(cs, "Uint:BitOps::bit", &eb, Out::Val(vec![bool::from(BitOps::bit(&ua, idx as u32)) as u64]));
            chk!(cs, "Uint:BitOps::bit_vartime", &eb, Out::Val(vec![BitOps::bit_vartime(&ua, idx as u32) as u64]));
            if idx < bits_ {
                for v in [false, true] {
                    cs.group();
                    let mut e = a.clone();
                    if v {
                        e[idx / 64] |= 1 << (idx % 64);
                    } else {
                        e[idx / 64] &= !(1 << (idx % 64));
                    }
                    chk!(cs, "Uint:BitOps::set_bit", &Out::v(&e), {
                        let mut x = ua;
                        BitOps::set_bit(&mut x, idx as u32, Choice::from(v as u8));
                        Out::v(&w(&x))
                    });
                    chk!(cs, "Uint:BitOps::set_bit_vartime", &Out::v(&e), {
                        let mut x = ua;
                        BitOps::set_bit_vartime(&mut x, idx as u32, v);
                        Out::v(&w(&x))
                    });
                }
            }
            if idx == 0 {
                // unary queries
                let blen = (0..bits_).rev().find(|&j| (a[j / 64] >> (j % 64)) & 1 == 1).map(|j| j + 1).unwrap_or(0) as u64;
                let tz = (0..bits_).find(|&j| (a[j / 64] >> (j % 64)) & 1 == 1).unwrap_or(bits_) as u64;
                let to = (0..bits_).find(|&j| (a[j / 64] >> (j % 64)) & 1 == 0).unwrap_or(bits_) as u64;
                cs.extra = None;
                cs.group();
                let e = Out::Val(vec![blen]);
                chk!(cs, "Uint::bits", &e, Out::Val(vec![ua.bits() as u64]));
                chk!(cs, "Uint::bits_vartime", &e, Out::Val(vec![ua.bits_vartime() as u64]));
                chk!(cs, "Uint:BitOps::bits", &e, Out::Val(vec![BitOps::bits(&ua) as u64]));
                chk!(cs, "Uint:BitOps::bits_vartime", &e, Out::Val(vec![BitOps::bits_vartime(&ua) as u64]));
                cs.group();
                let e = Out::Val(vec![bits_ as u64 - blen]);
                chk!(cs, "Uint::leading_zeros", &e, Out::Val(vec![ua.leading_zeros() as u64]));
                chk!(cs, "Uint::leading_zeros_vartime", &e, Out::Val(vec![ua.leading_zeros_vartime() as u64]));
                chk!(cs, "Uint:BitOps::leading_zeros", &e, Out::Val(vec![BitOps::leading_zeros(&ua) as u64]));
                chk!(cs, "Uint:BitOps::leading_zeros_vartime", &e, Out::Val(vec![BitOps::leading_zeros_vartime(&ua) as u64]));
                cs.group();
                let e = Out::Val(vec![tz]);
                chk!(cs, "Uint::trailing_zeros", &e, Out::Val(vec![ua.trailing_zeros() as u64]));
                chk!(cs, "Uint::trailing_zeros_vartime", &e, Out::Val(vec![ua.trailing_zeros_vartime() as u64]));
                chk!(cs, "Uint:BitOps::trailing_zeros", &e, Out::Val(vec![BitOps::trailing_zeros(&ua) as u64]));
                chk!(cs, "Uint:BitOps::trailing_zeros_vartime", &e, Out::Val(vec![BitOps::trailing_zeros_vartime(&ua) as u64]));
                cs.group();
                let e = Out::Val(vec![to]);
                chk!(cs, "Uint::trailing_ones", &e, Out::Val(vec![ua.trailing_ones() as u64]));
                chk!(cs, "Uint::trailing_ones_vartime", &e, Out::Val(vec![ua.trailing_ones_vartime() as u64]));
                chk!(cs, "Uint:BitOps::trailing_ones", &e, Out::Val(vec![BitOps::trailing_ones(&ua) as u64]));
                chk!(cs, "Uint:BitOps::trailing_ones_vartime", &e, Out::Val(vec![BitOps::trailing_ones_vartime(&ua) as u64]));
                cs.group();
                chk!(cs, "Uint:BitOps::bits_precision", &Out::Val(vec![bits_ as u64]), Out::Val(vec![BitOps::bits_precision(&ua) as u64, ]));
                cs.group();
                chk!(cs, "Uint:BitOps::bytes_precision", &Out::Val(vec![8 * N as u64]), Out::Val(vec![BitOps::bytes_precision(&ua) as u64]));
            }
        });
    }
    // ---- bitwise operators
    if ctx.want("uint_bitwise") {
        let ops = thin(vals.clone(), if ctx.thorough() { 400 } else { 120 });
        let k = ops.len();
        ctx.par_for("uint_bitwise", &wname, k * k, |i, l| {
            let (a, b) = (&ops[i / k], &ops[i % k]);
            let ins: [&[u64]; 2] = [a, b];
            let mut cs = Case::new(l, P, "uint_bitwise", &wname, &ins);
            let (ua, ub) = (u::<N>(a), u::<N>(b));
            cs.l.nontrivial += (a != b) as u64;
            let and: Limbs = a.iter().zip(b).map(|(x, y)| x & y).collect();
            let or: Limbs = a.iter().zip(b).map(|(x, y)| x | y).collect();
            let xor: Limbs = a.iter().zip(b).map(|(x, y)| x ^ y).collect();
            let not: Limbs = a.iter().map(|x| !x).collect();
            macro_rules! bin {
                ($exp:expr, $m:ident, $wm:ident, $cm:ident, $op:tt, $opa:tt, $n:literal) => {{
                    cs.group();
                    let e = Out::v(&$exp);
                    chk!(cs, concat!("Uint::", $n), &e, Out::v(&w(&ua.$m(&ub))));
                    chk!(cs, concat!("Uint::wrapping_", $n), &e, Out::v(&w(&ua.$wm(&ub))));
                    chk!(cs, concat!("Uint::checked_", $n), &e, uopt(ua.$cm(&ub)));
                    chk!(cs, concat!("Uint ", stringify!($op), " Uint"), &e, Out::v(&w(&(ua $op ub))));
                    chk!(cs, concat!("Uint ", stringify!($op), " &Uint"), &e, Out::v(&w(&(ua $op &ub))));
                    chk!(cs, concat!("&Uint ", stringify!($op), " Uint"), &e, Out::v(&w(&(&ua $op ub))));
                    chk!(cs, concat!("&Uint ", stringify!($op), " &Uint"), &e, Out::v(&w(&(&ua $op &ub))));
                    chk!(cs, concat!("Uint ", stringify!($opa), " Uint"), &e, { let mut x = ua; x $opa ub; Out::v(&w(&x)) });
                    chk!(cs, concat!("Uint ", stringify!($opa), " &Uint"), &e, { let mut x = ua; x $opa &ub; Out::v(&w(&x)) });
                    chk!(cs, concat!("Wrapping<Uint> ", stringify!($op)), &e, Out::v(&w(&(Wrapping(ua) $op Wrapping(ub)).0)));
                    chk!(cs, concat!("Wrapping<Uint> ", stringify!($op), " &"), &e, Out::v(&w(&(Wrapping(ua) $op &Wrapping(ub)).0)));
                    chk!(cs, concat!("&Wrapping<Uint> ", stringify!($op)), &e, Out::v(&w(&(&Wrapping(ua) $op Wrapping(ub)).0)));
                    chk!(cs, concat!("&Wrapping<Uint> ", stringify!($op), " &"), &e, Out::v(&w(&(&Wrapping(ua) $op &Wrapping(ub)).0)));
                    chk!(cs, concat!("Wrapping<Uint> ", stringify!($opa)), &e, { let mut x = Wrapping(ua); x $opa Wrapping(ub); Out::v(&w(&x.0)) });
                    chk!(cs, concat!("Wrapping<Uint> ", stringify!($opa), " &"), &e, { let mut x = Wrapping(ua); x $opa &Wrapping(ub); Out::v(&w(&x.0)) });
                }};
            }
            bin!(and, bitand, wrapping_and, checked_and, &, &=, "bitand");
            bin!(or, bitor, wrapping_or, checked_or, |, |=, "bitor");
            bin!(xor, bitxor, wrapping_xor, checked_xor, ^, ^=, "bitxor");
            cs.group();
            let andl: Limbs = a.iter().map(|x| x & b[0]).collect();
            chk!(cs, "Uint::bitand_limb", &Out::v(&andl), Out::v(&w(&ua.bitand_limb(Limb(b[0])))));
            if i % k == 0 {
                cs.group();
                let e = Out::v(&not);
                chk!(cs, "Uint::not", &e, Out::v(&w(&ua.not())));
                chk!(cs, "!Uint", &e, Out::v(&w(&!ua)));
                chk!(cs, "!Wrapping<Uint>", &e, Out::v(&w(&(!Wrapping(ua)).0)));
            }
        });
    }
}

fn fam_limb(ctx: &Ctx) {
    if !ctx.want("limb_shift") {
        return;
    }
    let mut vals = l13(ctx.seed);
    for j in 0..64 {
        vals.extend([1u64 << j, (1u64 << j).wrapping_sub(1), !((1u64 << j).wrapping_sub(1))]);
    }
    vals.sort();
    vals.dedup();
    let sh = shifts(64);
    let ks = sh.len();
    ctx.par_for("limb_shift", "Limb", vals.len() * ks, |i, l| {
        let (a, s) = (vals[i / ks], sh[i % ks]);
        let av = [a];
        let ins: [&[u64]; 1] = [&av];
        let mut cs = Case::new(l, P, "limb_shift", "Limb", &ins);
        cs.extra = Some(format!("shift={s}"));
        let la = Limb(a);
        let ovf = s >= 64;
        cs.l.nontrivial += (!ovf && s > 0 && a != 0) as u64;
        let cls = if ovf { "shift>=64" } else { "any" };
        let sl = if ovf { 0 } else { a << s };
        let sr = if ovf { 0 } else { a >> s };
        let (pl, pr) = if ovf { (Out::Panic, Out::Panic) } else { (Out::Val(vec![sl]), Out::Val(vec![sr])) };
        cs.check("Limb::shl", cls, &pl, guard(|| Out::Val(vec![la.shl(s).0])));
        cs.check("Limb<<u32", cls, &pl, guard(|| Out::Val(vec![(la << s).0])));
        cs.check("Limb<<usize", cls, &pl, guard(|| Out::Val(vec![(la << (s as usize)).0])));
        if s <= i32::MAX as u32 {
            cs.check("Limb<<i32", cls, &pl, guard(|| Out::Val(vec![(la << (s as i32)).0])));
        }
        cs.check("Limb<<=u32", cls, &pl, guard(|| {
            let mut x = la;
            x <<= s;
            Out::Val(vec![x.0])
        }));
        cs.group();
        cs.check("Limb::shr", cls, &pr, guard(|| Out::Val(vec![la.shr(s).0])));
        cs.check("Limb>>u32", cls, &pr, guard(|| Out::Val(vec![(la >> s).0])));
        cs.check("Limb>>usize", cls, &pr, guard(|| Out::Val(vec![(la >> (s as usize)).0])));
        if s <= i32::MAX as u32 {
            cs.check("Limb>>i32", cls, &pr, guard(|| Out::Val(vec![(la >> (s as i32)).0])));
        }
        cs.check("Limb>>=u32", cls, &pr, guard(|| {
            let mut x = la;
            x >>= s;
            Out::Val(vec![x.0])
        }));
        // num_traits::WrappingShl documents masking of the shift; the property states zero: both accepted
        cs.group();
        check_any(&mut cs, "Limb:WrappingShl", &[Out::Val(vec![sl]), Out::Val(vec![a << (s % 64)])], guard(|| Out::Val(vec![WrappingShl::wrapping_shl(&la, s).0])));
        check_any(&mut cs, "Limb:WrappingShr", &[Out::Val(vec![sr]), Out::Val(vec![a >> (s % 64)])], guard(|| Out::Val(vec![WrappingShr::wrapping_shr(&la, s).0])));
        if s == 0 {
            cs.group();
            let e = |x: u32| Out::Val(vec![x as u64]);
            chk!(cs, "Limb::bits", &e(64 - a.leading_zeros()), Out::Val(vec![la.bits() as u64]));
            cs.group();
            chk!(cs, "Limb::leading_zeros", &e(a.leading_zeros()), Out::Val(vec![la.leading_zeros() as u64]));
            cs.group();
            chk!(cs, "Limb::trailing_zeros", &e(a.trailing_zeros()), Out::Val(vec![la.trailing_zeros() as u64]));
            cs.group();
            chk!(cs, "Limb::trailing_ones", &e(a.trailing_ones()), Out::Val(vec![la.trailing_ones() as u64]));
            cs.group();
            chk!(cs, "Limb::not", &Out::Val(vec![!a]), Out::Val(vec![la.not().0, ]));
            chk!(cs, "!Limb", &Out::Val(vec![!a]), Out::Val(vec![(!la).0]));
            for &b in &[0u64, 1, MAX, 0x5555_5555_5555_5555, a] {
                let lb = Limb(b);
                cs.group();
                chk!(cs, "Limb::bitand", &Out::Val(vec![a & b]), Out::Val(vec![la.bitand(lb).0]));
                chk!(cs, "Limb&Limb", &Out::Val(vec![a & b]), Out::Val(vec![(la & lb).0]));
                cs.group();
                chk!(cs, "Limb::bitor", &Out::Val(vec![a | b]), Out::Val(vec![la.bitor(lb).0]));
                chk!(cs, "Limb|Limb", &Out::Val(vec![a | b]), Out::Val(vec![(la | lb).0]));
                cs.group();
                chk!(cs, "Limb::bitxor", &Out::Val(vec![a ^ b]), Out::Val(vec![la.bitxor(lb).0]));
                chk!(cs, "Limb^Limb", &Out::Val(vec![a ^ b]), Out::Val(vec![(la ^ lb).0]));
            }
        }
    });
}

fn fam_boxed(ctx: &Ctx) {
    let lens: Vec<usize> = if ctx.thorough() { (1..=20).collect() } else { vec![1, 2, 3, 4, 5, 6, 7, 8, 9, 13, 16, 17, 20] };
    for n in lens {
        let wname = format!("Boxed<{n}>");
        let vals = if ctx.thorough() { values(n, ctx) } else { thin(values(n, ctx), 120) };
        let sh = shifts(64 * n);
        let ks = sh.len();
        let bits_ = 64 * n;
        if ctx.want("boxed_shift") {
            ctx.par_for("boxed_shift", &wname, vals.len() * ks, |i, l| {
                let (a, s) = (&vals[i / ks], sh[i % ks]);
                let ins: [&[u64]; 1] = [a];
                let mut cs = Case::new(l, P, "boxed_shift", &wname, &ins);
                cs.extra = Some(format!("shift={s}"));
                let xa = bx(a);
                let su = s as usize;
                let ovf = su >= bits_;
                cs.l.nontrivial += (!ovf && s > 0 && !is_zero(a)) as u64;
                for left in [true, false] {
                    let r = if left { ref_shl(a, su.min(bits_)) } else { ref_shr(a, su.min(bits_), 0) };
                    let pk = if ovf { Out::Panic } else { Out::v(&r) };
                    let op = if ovf { Out::None } else { Out::v(&r) };
                    let wr = Out::v(&r);
                    let of = Out::v2(&r, ovf as u64);
                    cs.group();
                    if left {
                        chk!(cs, "Boxed::shl", &pk, Out::v(&bw(&xa.shl(s))));
                        chk!(cs, "Boxed::shl_assign", &pk, {
                            let mut x = xa.clone();
                            x.shl_assign(s);
                            Out::v(&bw(&x))
                        });
                        chk!(cs, "Boxed<<u32", &pk, Out::v(&bw(&(xa.clone() << s))));
                        chk!(cs, "&Boxed<<u32", &pk, Out::v(&bw(&(&xa << s))));
                        chk!(cs, "Boxed<<usize", &pk, Out::v(&bw(&(xa.clone() << (s as usize)))));
                        if s <= i32::MAX as u32 {
                            chk!(cs, "Boxed<<i32", &pk, Out::v(&bw(&(xa.clone() << (s as i32)))));
                        }
                        chk!(cs, "Boxed<<=u32", &pk, {
                            let mut x = xa.clone();
                            x <<= s;
                            Out::v(&bw(&x))
                        });
                        cs.group();
                        chk!(cs, "Boxed::overflowing_shl", &of, {
                            let (r_, c) = xa.overflowing_shl(s);
                            Out::v2(&bw(&r_), bool::from(c) as u64)
                        });
                        chk!(cs, "Boxed::overflowing_shl_assign", &of, {
                            let mut x = xa.clone();
                            let c = x.overflowing_shl_assign(s);
                            Out::v2(&bw(&x), bool::from(c) as u64)
                        });
                        cs.group();
                        chk!(cs, "Boxed::shl_vartime", &op, match xa.shl_vartime(s) {
                            Some(x) => Out::v(&bw(&x)),
                            None => Out::None,
                        });
                        chk!(cs, "Boxed:ShlVartime::overflowing", &op, bopt(ShlVartime::overflowing_shl_vartime(&xa, s)));
                        cs.group();
                        chk!(cs, "Boxed::wrapping_shl", &wr, Out::v(&bw(&xa.wrapping_shl(s))));
                        chk!(cs, "Boxed::wrapping_shl_vartime", &wr, Out::v(&bw(&xa.wrapping_shl_vartime(s))));
                        chk!(cs, "Boxed:WrappingShl", &wr, Out::v(&bw(&WrappingShl::wrapping_shl(&xa, s))));
                        chk!(cs, "Boxed:ShlVartime::wrapping", &wr, Out::v(&bw(&ShlVartime::wrapping_shl_vartime(&xa, s))));
                        chk!(cs, "Wrapping<Boxed><<u32", &wr, Out::v(&bw(&(Wrapping(xa.clone()) << s).0)));
                    } else {
                        chk!(cs, "Boxed::shr", &pk, Out::v(&bw(&xa.shr(s))));
                        chk!(cs, "Boxed::shr_assign", &pk, {
                            let mut x = xa.clone();
                            x.shr_assign(s);
                            Out::v(&bw(&x))
                        });
                        chk!(cs, "Boxed>>u32", &pk, Out::v(&bw(&(xa.clone() >> s))));
                        chk!(cs, "&Boxed>>u32", &pk, Out::v(&bw(&(&xa >> s))));
                        chk!(cs, "Boxed>>usize", &pk, Out::v(&bw(&(xa.clone() >> (s as usize)))));
                        if s <= i32::MAX as u32 {
                            chk!(cs, "Boxed>>i32", &pk, Out::v(&bw(&(xa.clone() >> (s as i32)))));
                        }
                        chk!(cs, "Boxed>>=u32", &pk, {
                            let mut x = xa.clone();
                            x >>= s;
                            Out::v(&bw(&x))
                        });
                        cs.group();
                        chk!(cs, "Boxed::overflowing_shr", &of, {
                            let (r_, c) = xa.overflowing_shr(s);
                            Out::v2(&bw(&r_), bool::from(c) as u64)
                        });
                        chk!(cs, "Boxed::overflowing_shr_assign", &of, {
                            let mut x = xa.clone();
                            let c = x.overflowing_shr_assign(s);
                            Out::v2(&bw(&x), bool::from(c) as u64)
                        });
                        cs.group();
                        chk!(cs, "Boxed::shr_vartime", &op, match xa.shr_vartime(s) {
                            Some(x) => Out::v(&bw(&x)),
                            None => Out::None,
                        });
                        chk!(cs, "Boxed:ShrVartime::overflowing", &op, bopt(ShrVartime::overflowing_shr_vartime(&xa, s)));
                        cs.group();
                        chk!(cs, "Boxed::wrapping_shr", &wr, Out::v(&bw(&xa.wrapping_shr(s))));
                        chk!(cs, "Boxed::wrapping_shr_vartime", &wr, Out::v(&bw(&xa.wrapping_shr_vartime(s))));
                        chk!(cs, "Boxed:WrappingShr", &wr, Out::v(&bw(&WrappingShr::wrapping_shr(&xa, s))));
                        chk!(cs, "Boxed:ShrVartime::wrapping", &wr, Out::v(&bw(&ShrVartime::wrapping_shr_vartime(&xa, s))));
                        chk!(cs, "Wrapping<Boxed>>>u32", &wr, Out::v(&bw(&(Wrapping(xa.clone()) >> s).0)));
                    }
                }
            });
        }
        if ctx.want("boxed_bits") {
            let nidx = bits_ + 2;
            let all = thin(vals.clone(), if ctx.thorough() { 300 } else { 60 });
            ctx.par_for("boxed_bits", &wname, all.len() * nidx, |i, l| {
                let (a, idx) = (&all[i / nidx], i % nidx);
                let ins: [&[u64]; 1] = [a];
                let mut cs = Case::new(l, P, "boxed_bits", &wname, &ins);
                cs.extra = Some(format!("index={idx}"));
                let xa = bx(a);
                let bit = idx < bits_ && (a[idx / 64] >> (idx % 64)) & 1 == 1;
                cs.l.nontrivial += (idx < bits_) as u64;
                let eb = Out::Val(vec![bit as u64]);
                chk!(cs, "Boxed::bit", &eb, Out::Val(vec![bool::from(xa.bit(idx as u32)) as u64]));
                chk!(cs, "Boxed::bit_vartime", &eb, Out::Val(vec![xa.bit_vartime(idx as u32) as u64]));
                chk!(cs, "Boxed:BitOps::bit", &eb, Out::Val(vec![bool::from(BitOps::bit(&xa, idx as u32)) as u64]));
                chk!(cs, "Boxed:BitOps::bit_vartime", &eb, Out::Val(vec![BitOps::bit_vartime(&xa, idx as u32) as u64]));
                if idx < bits_ {
                    for v in [false, true] {
                        cs.group();
                        let mut e = a.clone();
                        if v {
                            e[idx / 64] |= 1 << (idx % 64);
                        } else {
                            e[idx / 64] &= !(1 << (idx % 64));
                        }
                        chk!(cs, "Boxed:BitOps::set_bit", &Out::v(&e), {
                            let mut x = xa.clone();
                            BitOps::set_bit(&mut x, idx as u32, Choice::from(v as u8));
                            Out::v(&bw(&x))
                        });
                        chk!(cs, "Boxed:BitOps::set_bit_vartime", &Out::v(&e), {
                            let mut x = xa.clone();
                            BitOps::set_bit_vartime(&mut x, idx as u32, v);
                            Out::v(&bw(&x))
                        });
                    }
                }
                if idx == 0 {
                    let blen = (0..bits_).rev().find(|&j| (a[j / 64] >> (j % 64)) & 1 == 1).map(|j| j + 1).unwrap_or(0) as u64;
                    let tz = (0..bits_).find(|&j| (a[j / 64] >> (j % 64)) & 1 == 1).unwrap_or(bits_) as u64;
                    let to = (0..bits_).find(|&j| (a[j / 64] >> (j % 64)) & 1 == 0).unwrap_or(bits_) as u64;
                    cs.extra = None;
                    cs.group();
                    let e = Out::Val(vec![blen]);
                    chk!(cs, "Boxed::bits", &e, Out::Val(vec![xa.bits() as u64]));
                    chk!(cs, "Boxed::bits_vartime", &e, Out::Val(vec![xa.bits_vartime() as u64]));
                    chk!(cs, "Boxed:BitOps::bits", &e, Out::Val(vec![BitOps::bits(&xa) as u64]));
                    chk!(cs, "Boxed:BitOps::bits_vartime", &e, Out::Val(vec![BitOps::bits_vartime(&xa) as u64]));
                    cs.group();
                    let e = Out::Val(vec![bits_ as u64 - blen]);
                    chk!(cs, "Boxed::leading_zeros", &e, Out::Val(vec![xa.leading_zeros() as u64]));
                    chk!(cs, "Boxed:BitOps::leading_zeros", &e, Out::Val(vec![BitOps::leading_zeros(&xa) as u64]));
                    chk!(cs, "Boxed:BitOps::leading_zeros_vartime", &e, Out::Val(vec![BitOps::leading_zeros_vartime(&xa) as u64]));
                    cs.group();
                    let e = Out::Val(vec![tz]);
                    chk!(cs, "Boxed::trailing_zeros", &e, Out::Val(vec![xa.trailing_zeros() as u64]));
                    chk!(cs, "Boxed::trailing_zeros_vartime", &e, Out::Val(vec![xa.trailing_zeros_vartime() as u64]));
                    chk!(cs, "Boxed:BitOps::trailing_zeros", &e, Out::Val(vec![BitOps::trailing_zeros(&xa) as u64]));
                    cs.group();
                    let e = Out::Val(vec![to]);
                    chk!(cs, "Boxed::trailing_ones", &e, Out::Val(vec![xa.trailing_ones() as u64]));
                    chk!(cs, "Boxed::trailing_ones_vartime", &e, Out::Val(vec![xa.trailing_ones_vartime() as u64]));
                    chk!(cs, "Boxed:BitOps::trailing_ones", &e, Out::Val(vec![BitOps::trailing_ones(&xa) as u64]));
                    cs.group();
                    chk!(cs, "Boxed::bits_precision", &Out::Val(vec![bits_ as u64]), Out::Val(vec![xa.bits_precision() as u64]));
                    // bitwise ops against a few partners of the same precision
                    let not: Limbs = a.iter().map(|x| !x).collect();
                    cs.group();
                    chk!(cs, "Boxed::not", &Out::v(&not), Out::v(&bw(&xa.not())));
                    chk!(cs, "!Boxed", &Out::v(&not), Out::v(&bw(&!xa.clone())));
                    for j in [0usize, all.len() / 2, all.len() - 1] {
                        let b = &all[j];
                        let xb = bx(b);
                        let and: Limbs = a.iter().zip(b).map(|(x, y)| x & y).collect();
                        let or: Limbs = a.iter().zip(b).map(|(x, y)| x | y).collect();
                        let xor: Limbs = a.iter().zip(b).map(|(x, y)| x ^ y).collect();
                        cs.group();
                        chk!(cs, "Boxed::bitand", &Out::v(&and), Out::v(&bw(&xa.bitand(&xb))));
                        chk!(cs, "&Boxed&&Boxed", &Out::v(&and), Out::v(&bw(&(&xa & &xb))));
                        chk!(cs, "Boxed&=", &Out::v(&and), {
                            let mut x = xa.clone();
                            x &= &xb;
                            Out::v(&bw(&x))
                        });
                        cs.group();
                        chk!(cs, "Boxed::bitor", &Out::v(&or), Out::v(&bw(&xa.bitor(&xb))));
                        chk!(cs, "&Boxed|&Boxed", &Out::v(&or), Out::v(&bw(&(&xa | &xb))));
                        chk!(cs, "Boxed|=", &Out::v(&or), {
                            let mut x = xa.clone();
                            x |= &xb;
                            Out::v(&bw(&x))
                        });
                        cs.group();
                        chk!(cs, "Boxed::bitxor", &Out::v(&xor), Out::v(&bw(&xa.bitxor(&xb))));
                        chk!(cs, "&Boxed^&Boxed", &Out::v(&xor), Out::v(&bw(&(&xa ^ &xb))));
                        chk!(cs, "Boxed^=", &Out::v(&xor), {
                            let mut x = xa.clone();
                            x ^= &xb;
                            Out::v(&bw(&x))
                        });
                        // mixed precision: a ONE-limb right-hand side is zero-extended (values compared, the wider
                        // operand's high limbs must be cleared by AND and kept by OR / XOR)
                        if a.len() >= 2 {
                            let nb = bx(&b[..1]);
                            let val = |l: &Limbs| Out::v(&from_big(&to_big(l), a.len()));
                            let mut and1 = vec![0u64; a.len()];
                            and1[0] = a[0] & b[0];
                            let mut or1 = a.clone();
                            or1[0] |= b[0];
                            let mut xor1 = a.clone();
                            xor1[0] ^= b[0];
                            let norm = |x: &BoxedUint| Out::v(&from_big(&to_big(&bw(x)), a.len()));
                            cs.group();
                            chk!(cs, "&Boxed&&Boxed (narrow rhs)", &val(&and1), norm(&(&xa & &nb)));
                            chk!(cs, "Boxed&=&Boxed (narrow rhs)", &val(&and1), {
                                let mut x = xa.clone();
                                x &= &nb;
                                norm(&x)
                            });
                            chk!(cs, "Boxed&=Boxed (narrow rhs, by value)", &val(&and1), {
                                let mut x = xa.clone();
                                x &= nb.clone();
                                norm(&x)
                            });
                            cs.group();
                            chk!(cs, "&Boxed|&Boxed (narrow rhs)", &val(&or1), norm(&(&xa | &nb)));
                            chk!(cs, "Boxed|=&Boxed (narrow rhs)", &val(&or1), {
                                let mut x = xa.clone();
                                x |= &nb;
                                norm(&x)
                            });
                            cs.group();
                            chk!(cs, "&Boxed^&Boxed (narrow rhs)", &val(&xor1), norm(&(&xa ^ &nb)));
                            chk!(cs, "Boxed^=&Boxed (narrow rhs)", &val(&xor1), {
                                let mut x = xa.clone();
                                x ^= &nb;
                                norm(&x)
                            });
                        }
                    }
                }
            });
        }
    }
}

fn main() {
    let ctx = Ctx::from_args(P, "exploration");
    ctx.set_rule("E1: values (FULL(n,L9) n<=2 | RUNS(n,L5,2)) + BITS(n) + runs of ones ending at every limb boundary, x EVERY shift amount 0..=2*BITS+1 plus i32::MAX and u32::MAX, x every shift form; \
        double-width shifts over (lo,hi) products; EVERY bit index 0..=BITS+1 for bit test (set_bit for in-range indices); bitwise operators over pair products. Reference: independent limb-vector shifter. \
        Non-trivial: in-range non-zero shift of a non-zero value.");
    ctx.assume("limb values outside the stated alphabets are not explored; shift amounts and bit indices ARE exhaustive in the stated range");
    ctx.assume("set_bit/set_bit_vartime are only driven with in-range indices (out-of-range behaviour is undocumented)");
    ctx.assume("num_traits::WrappingShl/WrappingShr on Limb: both the masked-shift result (trait documentation) and zero (property text) are accepted for shift >= 64");
    let ctx = &ctx;
    fam_limb(ctx);
    for n in [1usize, 2, 3, 4, 5, 6, 8, 16] {
        dispatch!(n, [1, 2, 3, 4, 5, 6, 8, 16], fam_uint(ctx));
    }
    fam_boxed(ctx);
    std::process::exit(ctx.finish());
}
