//! Limb alphabets and complete finite operand generators (DESIGN §0.1).
//! Every generator returns a *deduplicated, deterministically ordered* set; products are enumerated
//! completely by the callers.

use num_bigint::BigUint;
use num_traits::{One, Zero};
use std::collections::BTreeSet;

pub const MAX: u64 = u64::MAX;
pub const TOP: u64 = 1u64 << 63;

pub fn splitmix64(state: &mut u64) -> u64 {
    *state = state.wrapping_add(0x9E37_79B9_7F4A_7C15);
    let mut z = *state;
    z = (z ^ (z >> 30)).wrapping_mul(0xBF58_476D_1CE4_E5B9);
    z = (z ^ (z >> 27)).wrapping_mul(0x94D0_49BB_1331_11EB);
    z ^ (z >> 31)
}

/// The two "generic" limbs derived from the seed (the only use of the seed).
pub fn generic_limbs(seed: u64) -> (u64, u64) {
    let mut s = seed ^ 0xC0FF_EE00_D15E_A5E5;
    let mut g1 = splitmix64(&mut s);
    let mut g2 = splitmix64(&mut s);
    // keep them "generic": not colliding with structured members
    if g1 < 4 || g1 > MAX - 4 {
        g1 = 0x0123_4567_89AB_CDEF;
    }
    if g2 < 4 || g2 > MAX - 4 || g2 == g1 {
        g2 = 0xFEDC_BA98_7654_3211;
    }
    (g1, g2 | 1)
}

pub fn l3() -> Vec<u64> {
    vec![0, 1, MAX]
}
pub fn l5() -> Vec<u64> {
    vec![0, 1, MAX, TOP, MAX - 1]
}
pub fn l9() -> Vec<u64> {
    vec![0, 1, MAX, TOP, MAX - 1, 2, TOP - 1, TOP + 1, 1 << 32]
}
pub fn l13(seed: u64) -> Vec<u64> {
    let (g1, g2) = generic_limbs(seed);
    let mut v = l9();
    v.extend([(1u64 << 32) - 1, 0x5555_5555_5555_5555, g1, g2]);
    v
}
/// L5 plus one generic limb: for wide RUNS products where a non-structured limb matters.
pub fn l6g(seed: u64) -> Vec<u64> {
    let mut v = l5();
    v.push(generic_limbs(seed).0);
    v
}

pub type Limbs = Vec<u64>;

pub fn dedup(v: Vec<Limbs>) -> Vec<Limbs> {
    let mut seen = BTreeSet::new();
    let mut out = Vec::with_capacity(v.len());
    for x in v {
        if seen.insert(x.clone()) {
            out.push(x);
        }
    }
    out
}

/// FULL(n, alpha): all |alpha|^n limb vectors, simplest-first (alphabet order, low limb fastest).
pub fn full(n: usize, alpha: &[u64]) -> Vec<Limbs> {
    let k = alpha.len();
    let total = k.pow(n as u32);
    let mut out = Vec::with_capacity(total);
    for mut i in 0..total {
        let mut v = Vec::with_capacity(n);
        for _ in 0..n {
            v.push(alpha[i % k]);
            i /= k;
        }
        out.push(v);
    }
    out
}

/// RUNS(n, alpha, r): all piecewise-constant vectors with at most r runs, every boundary position.
pub fn runs(n: usize, alpha: &[u64], r: usize) -> Vec<Limbs> {
    let mut out: Vec<Limbs> = Vec::new();
    fn rec(n: usize, alpha: &[u64], r: usize, cur: &mut Limbs, out: &mut Vec<Limbs>) {
        if cur.len() == n {
            out.push(cur.clone());
            return;
        }
        if r == 0 {
            return;
        }
        let start = cur.len();
        let last = cur.last().copied();
        for &a in alpha {
            if Some(a) == last {
                continue;
            }
            // run of value a of every admissible length (if this is the last allowed run it must fill)
            let min_len = if r == 1 { n - start } else { 1 };
            for len in min_len..=(n - start) {
                cur.resize(start + len, a);
                rec(n, alpha, r - 1, cur, out);
                cur.truncate(start);
            }
        }
    }
    let mut cur = Vec::new();
    rec(n, alpha, r, &mut cur, &mut out);
    dedup(out)
}

/// BITS(n): 0, MAX-vector, and 2^j, 2^j-1, 2^j+1 for every j in 0..64n.
pub fn bits(n: usize) -> Vec<Limbs> {
    let mut out = vec![vec![0u64; n], vec![MAX; n]];
    let total = 64 * n;
    for j in 0..total {
        let p = BigUint::one() << j;
        out.push(from_big(&p, n));
        out.push(from_big(&(&p - 1u32), n));
        out.push(from_big(&(&p + 1u32), n));
    }
    dedup(out)
}

/// NEAR(v): v-1, v, v+1 reduced into n limbs (wrapping), deduplicated by caller.
pub fn near(v: &BigUint, n: usize) -> Vec<Limbs> {
    let m = BigUint::one() << (64 * n);
    let a = (v + &m - 1u32) % &m;
    let b = v % &m;
    let c = (v + 1u32) % &m;
    vec![from_big(&a, n), from_big(&b, n), from_big(&c, n)]
}

pub fn to_big(l: &[u64]) -> BigUint {
    let mut bytes = Vec::with_capacity(l.len() * 8);
    for w in l {
        bytes.extend_from_slice(&w.to_le_bytes());
    }
    BigUint::from_bytes_le(&bytes)
}

/// value mod 2^(64 n) as n limbs, little endian
pub fn from_big(v: &BigUint, n: usize) -> Limbs {
    let digits = v.to_u64_digits();
    let mut out = vec![0u64; n];
    for (i, d) in digits.iter().enumerate().take(n) {
        out[i] = *d;
    }
    out
}

pub fn fits(v: &BigUint, n: usize) -> bool {
    v.bits() <= (64 * n) as u64
}

pub fn pow2(k: usize) -> BigUint {
    BigUint::one() << k
}

pub fn hex(l: &[u64]) -> String {
    let mut s = String::with_capacity(l.len() * 17 + 2);
    s.push('[');
    for (i, w) in l.iter().enumerate() {
        if i > 0 {
            s.push(',');
        }
        s.push_str(&format!("{w:#x}"));
    }
    s.push(']');
    s
}

pub fn parse_hex_limbs(s: &str) -> Limbs {
    let t = s.trim().trim_start_matches('[').trim_end_matches(']');
    if t.is_empty() {
        return vec![];
    }
    t.split(',')
        .map(|x| u64::from_str_radix(x.trim().trim_start_matches("0x"), 16).expect("hex limb"))
        .collect()
}

pub fn is_zero(l: &[u64]) -> bool {
    l.iter().all(|&w| w == 0)
}

/// Extend / truncate to n limbs (zero padded)
pub fn resize(l: &[u64], n: usize) -> Limbs {
    let mut v = l.to_vec();
    v.resize(n, 0);
    v
}

/// Operand set used by most E1 families at width n:
/// FULL(n,L9) for n<=2, FULL(n,L5) for n<=4 (quick: n<=3), RUNS(n,L5(+g),r) else, plus BITS(n) optional.
pub fn operands(n: usize, seed: u64, thorough: bool) -> Vec<Limbs> {
    let mut v = if n <= 2 {
        full(n, &l9())
    } else if n == 3 || (n == 4 && thorough) {
        full(n, &l5())
    } else if n <= 16 {
        runs(n, &l6g(seed), 3)
    } else {
        runs(n, &l5(), if thorough { 3 } else { 2 })
    };
    if n > 2 {
        // add a fully generic vector and alternating patterns
        let (g1, g2) = generic_limbs(seed);
        v.push((0..n).map(|i| if i % 2 == 0 { g1 } else { g2 }.rotate_left(i as u32)).collect());
        v.push((0..n).map(|i| if i % 2 == 0 { 0 } else { MAX }).collect());
        v.push((0..n).map(|i| if i % 2 == 0 { MAX } else { 0 }).collect());
    }
    dedup(v)
}

pub fn zero_big() -> BigUint {
    BigUint::zero()
}

/// Deterministic stride-thinning of a generator set to at most `max` members (first and last kept).
pub fn thin(v: Vec<Limbs>, max: usize) -> Vec<Limbs> {
    if v.len() <= max || max < 2 {
        return v;
    }
    let n = v.len();
    let mut out = Vec::with_capacity(max);
    for i in 0..max {
        out.push(v[i * (n - 1) / (max - 1)].clone());
    }
    dedup(out)
}
