//! Scripted RNG environment (engine E4): every answer the RNG gives comes from an explicit byte script.
use rand_core::{RngCore, TryRngCore};
use std::fmt;

#[derive(Debug, Clone, PartialEq, Eq)]
pub struct Exhausted;
impl fmt::Display for Exhausted {
    fn fmt(&self, f: &mut fmt::Formatter<'_>) -> fmt::Result {
        write!(f, "script exhausted")
    }
}
impl std::error::Error for Exhausted {}

/// Fallible scripted RNG: after the script is used up every request fails with `Exhausted`
/// (so "needs more than the script" is an observable outcome, not a hang).
#[derive(Clone, Debug)]
pub struct ScriptRng {
    pub data: Vec<u8>,
    pub pos: usize,
}
impl ScriptRng {
    pub fn from_words(words: &[u64]) -> Self {
        ScriptRng { data: words.iter().flat_map(|w| w.to_le_bytes()).collect(), pos: 0 }
    }
    pub fn from_bytes(b: &[u8]) -> Self {
        ScriptRng { data: b.to_vec(), pos: 0 }
    }
    fn take(&mut self, n: usize) -> Result<&[u8], Exhausted> {
        if self.pos + n > self.data.len() {
            self.pos = self.data.len();
            return Err(Exhausted);
        }
        let s = &self.data[self.pos..self.pos + n];
        self.pos += n;
        Ok(s)
    }
}
impl TryRngCore for ScriptRng {
    type Error = Exhausted;
    fn try_next_u32(&mut self) -> Result<u32, Exhausted> {
        Ok(u32::from_le_bytes(self.take(4)?.try_into().unwrap()))
    }
    fn try_next_u64(&mut self) -> Result<u64, Exhausted> {
        Ok(u64::from_le_bytes(self.take(8)?.try_into().unwrap()))
    }
    fn try_fill_bytes(&mut self, dst: &mut [u8]) -> Result<(), Exhausted> {
        let n = dst.len();
        dst.copy_from_slice(self.take(n)?);
        Ok(())
    }
}

/// Infallible wrapper: exhaustion panics (caught by `guard`).
#[derive(Clone, Debug)]
pub struct PanicScriptRng(pub ScriptRng);
impl RngCore for PanicScriptRng {
    fn next_u32(&mut self) -> u32 {
        self.0.try_next_u32().expect("script exhausted")
    }
    fn next_u64(&mut self) -> u64 {
        self.0.try_next_u64().expect("script exhausted")
    }
    fn fill_bytes(&mut self, dst: &mut [u8]) {
        self.0.try_fill_bytes(dst).expect("script exhausted")
    }
}
