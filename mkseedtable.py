#!/usr/bin/env python3
"""Rebuilds the table of seeded changes in DESIGN.md (between the SEEDTABLE markers) from /verif/seeded/*/meta.json and
/verif/seeded/RESULTS.tsv, and copies each verdict into meta.json.detected_by."""
import json, os, re, glob
V = "/verif"
res = {}
if os.path.exists(f"{V}/seeded/RESULTS.tsv"):
    for l in open(f"{V}/seeded/RESULTS.tsv"):
        f = l.rstrip("\n").split("\t")
        if len(f) >= 4:
            res.setdefault(f[0], []).append((f[1], f[2], f[3]))
rows = []
def key(d):
    m = re.match(r"C(\d+)-(\d+)", d)
    if not m:
        return (int(re.match(r"C(\d+)", d).group(1)), 999)
    return (int(m.group(1)), int(m.group(2)))
for d in sorted([os.path.basename(p) for p in glob.glob(f"{V}/seeded/C*-*")], key=key):
    mp = f"{V}/seeded/{d}/meta.json"
    if not os.path.exists(mp):
        continue
    m = json.load(open(mp))
    summ = re.sub(r"\s+", " ", (m.get("summary") or "")).replace("|", "/")
    short = summ[:150] + ("…" if len(summ) > 150 else "")
    verdicts = res.get(d, [])
    det = [f"./check {p} {t}" for p, t, v in verdicts if v == "DETECTED"]
    missed = [f"./check {p} {t}" for p, t, v in verdicts if v == "MISSED"]
    if verdicts:
        m["detected_by"] = det
        m["missed_by"] = missed
        m["what_i_ran"] = "seedtest.sh: git -C /repo apply <patch>; the listed check; git -C /repo checkout -- . (exit 1 with a VIOLATION line = detected)"
        json.dump(m, open(mp, "w"), indent=1)
    cell = ", ".join(f"{p} {t}" for p, t, v in verdicts if v == "DETECTED") or "—"
    if missed:
        cell += " (missed by: " + ", ".join(x.replace("./check ", "") for x in missed) + ")"
    rows.append(f"| {d} | {short} | {cell} |")
table = "| change | what it does (agent's summary, abridged) | reported by |\n|---|---|---|\n" + "\n".join(rows)
p = f"{V}/DESIGN.md"
s = open(p).read()
if "<!-- SEEDTABLE -->" in s:
    s = re.sub(r"<!-- SEEDTABLE -->.*?<!-- /SEEDTABLE -->", "<!-- SEEDTABLE -->\n" + table + "\n<!-- /SEEDTABLE -->", s, flags=re.S)
else:
    s = s.replace("SEEDTABLE", "<!-- SEEDTABLE -->\n" + table + "\n<!-- /SEEDTABLE -->", 1)
open(p, "w").write(s)
print(len(rows), "rows")
