#!/bin/bash
# seedconfirm.sh <id> <k> : independently confirm a seeded defect in a scratch worktree of /repo (original snapshot),
# then store it under /verif/seeded/<id>-<k>/ . Output: one line CONFIRMED/REJECTED.
id="$1"; k="$2"; src=/tmp/seed6/out/$id; wt=/tmp/seedverify6-$id-$k; sk=$((k+8))
patch=$src/patch$k.diff; demo=$src/demo$k.rs
[ -f "$patch" ] && [ -f "$demo" ] || { echo "REJECTED $id-$k missing files"; exit 1; }
base=$(git -C /repo rev-parse HEAD)
git -C /repo worktree add --detach $wt $base >/dev/null 2>&1 || { echo "REJECTED $id-$k worktree"; exit 1; }
cd $wt; export CARGO_TARGET_DIR=$wt/target CARGO_NET_OFFLINE=true
feat=$(head -1 $demo | grep -i 'features' | grep -oE 'alloc|der|rlp|hybrid-array|serde|zeroize|extra-sizes' | sort -u | paste -sd, -)
fflag=""; [ -n "$feat" ] && fflag="--features $feat"
log=$src/confirm$k.log; : > $log
res=REJECTED; why=""
if git apply $patch >>$log 2>&1; then
  if cargo build --offline --all-features >>$log 2>&1; then
    if cargo test --workspace --offline --no-fail-fast >>$log 2>&1; then
      dn=${DEMONAME:-seed_demo}; cp $demo tests/$dn.rs
      if cargo test --offline $fflag ${RELFLAG:-} --test $dn >>$log 2>&1; then why="demo passes with change"; else
        git checkout -- src
        if cargo test --offline $fflag ${RELFLAG:-} --test $dn >>$log 2>&1; then res=CONFIRMED; else why="demo fails on clean tree"; fi
      fi
    else why="existing suite fails with change"; fi
  else why="build fails"; fi
else why="patch does not apply"; fi
cd /; git -C /repo worktree remove --force $wt; rm -rf $wt
if [ $res = CONFIRMED ]; then
  d=/verif/seeded/$id-$sk; mkdir -p $d; cp $patch $d/patch.diff; cp $demo $d/demo.rs
  python3 - "$src/meta$k.json" "$d/meta.json" "$id" "$feat" <<'PY'
import json,sys
try: m=json.load(open(sys.argv[1]))
except Exception as e: m={"summary":"(agent meta unreadable)"}
out={"property":sys.argv[3],"summary":m.get("summary"),"needs":m.get("needs"),"files":m.get("files"),
 "demo_features":sys.argv[4] or "default",
 "confirmed_by":"seedconfirm.sh in a scratch worktree of /repo HEAD (repaired tree): git apply; cargo build --offline --all-features (ok); cargo test --workspace --offline --no-fail-fast (all pass); demo as tests/seed_demo.rs fails with the change and passes after git checkout -- src",
 "detected_by":[]}
json.dump(out,open(sys.argv[2],"w"),indent=1)
PY
fi
echo "$res $id-$k $why"
