#!/usr/bin/env python3
"""Regenerates /verif/MANIFEST.json from the table below (keeps the file valid at all times)."""
import json
ASSUME = ("Bounded-exhaustive: limb values outside the stated alphabets (L3/L5/L9/L13 incl. two seed-derived generic limbs) "
          "are not explored; oracle is num-bigint/u128 arithmetic, trusted; only the x86_64 (64-bit limb) build is checked.")
C = {}
def add(pid, engine, cat, text, note, technique, ref):
    C[pid] = dict(property_id=pid, quick_cmd=f"./check {pid} quick", thorough_cmd=f"./check {pid} thorough",
        evidence_file=f"/verif/evidence/{pid}.json", replay_cmd_template="./check replay {path}", engine=engine,
        level_claimed=dict(category=cat, text=text, design_ref=ref), level_note=note, technique=technique)

add("C04","E1 enum (+E2 closure for Checked)","exploration",
    "Every add/sub/neg form (213 forms: Limb, Uint<1..12,16,32>, BoxedUint with independent receiver/rhs precision, Uint<N> and u8..u128 right-hand sides, Wrapping, Checked) is applied to the complete product of the operand generators and every carry-in in {0,1,2,MAX}; word primitives over L13^4; each outcome (value, carry, none, panic) compared with exact integer arithmetic. Checked<T> stickiness is closed over all operation histories of depth 4/5.",
    ASSUME, "bounded-exhaustive enumeration of operand shapes x forms on the real code against a BigUint reference model; explicit enumeration of all Checked<T> operation histories to depth 4/5", "DESIGN.md §3.C04")

add("C03","E1 enum","exploration",
    "Every multiplication/squaring form (split, widening, wrapping, checked, saturating, operators by value/ref/assign, Wrapping, Checked; Uint<1..12,16,32,64,128> equal and mixed widths; BoxedUint 1..=140 limbs incl. unequal lengths around the Karatsuba thresholds) applied to the complete product of operand generators whose run boundaries include every half/quarter point of every Karatsuba level; compared with the exact BigUint product; an oracle-side classifier counts the (level, sign-case) pairs reached.",
    ASSUME, "bounded-exhaustive enumeration of operand shapes x forms on the real code against a BigUint reference model", "DESIGN.md §3.C03")

add("C02","E1 enum","exploration",
    "Every division/remainder form (112 forms: div_rem, _vartime with equal and mixed divisor width, rem, rem_wide_vartime, by limb with/without reciprocal, checked, wrapping, operators, assigning, Wrapping, traits; Uint<1,2,3,4,6,8,16,32,64>; BoxedUint with independent dividend/divisor precision 1..=70 limbs) applied to complete dividend x divisor products incl. every divisor bit length, NEAR(q*d) dividends, the textbook add-back vectors; rem2k for every k. Compared with BigUint q, r AND the identity n=q*d+r, r<d. An oracle-side Knuth-D classifier counts add-back / capped-estimate / lshift=0 hits (all non-zero).",
    ASSUME, "bounded-exhaustive enumeration of operand shapes x forms on the real code against a BigUint reference model, with path-class hit counting", "DESIGN.md §3.C02")

add("C05","E1 enum","exploration",
    "Every shift form (232 forms incl. bit queries and bitwise operators: ct, _vartime, overflowing, wrapping, double-width, operators for u32/usize/i32, assigning; Limb, Uint<1,2,3,4,5,6,8,16>, Int, BoxedUint 1..=20 limbs) is applied with EVERY shift amount 0..=2*BITS+1, i32::MAX and u32::MAX to a value set containing every single bit, 2^j+-1 and runs of ones ending at every limb boundary; every bit index 0..=BITS+1 for bit tests; compared with an independent limb-vector shifter.",
    ASSUME + " Shift amounts and bit indices are exhaustive in the stated range.", "bounded-exhaustive enumeration (exhaustive in the shift amount / bit index, shape-exhaustive in the value) on the real code against an independent reference", "DESIGN.md §3.C05")

add("C06","E1 enum","exploration",
    "Every equality/ordering predicate (ct_eq/ct_lt/ct_gt, Eq/Ord/PartialOrd, cmp_vartime, eq_vartime, zero/one/odd/even tests, comparisons with Odd/NonZero wrappers; Limb, Uint<1,2,3,4,8,16>, Int, BoxedUint pairs of independent precision incl. zero-padded equal values) on complete pair products is compared with the mathematical (BigUint / two's-complement) order; a == b must imply equal hashes under two hashers; every selector/assign/swap/negate with both choice values must return the chosen operand bit for bit; ConstCtOption is_some/unwrap_or.",
    ASSUME, "bounded-exhaustive enumeration of operand pairs x predicates on the real code against a BigUint order oracle", "DESIGN.md §3.C06")

add("C07","E1 enum","exploration",
    "Every modular add/sub/neg/double/mul form (ct, vartime, special-modulus, traits, assign; Uint<1,2,3,4,6,8,12,16>, BoxedUint 1..=20 limbs) and halving (through the Montgomery forms) for every modulus of a structured set incl. 1,2,3, 2^BITS-1, 2^(BITS-1)+-1, zero-high-limb moduli and every 2^BITS-c for c in L13: ALL residue pairs for p <= 64, otherwise the complete square of a residue set closed under x -> p-x and +-1. Result must be the canonical value in [0,p).",
    ASSUME, "bounded-exhaustive enumeration (true exhaustiveness over residues for small moduli) on the real code against BigUint % p", "DESIGN.md §3.C07")

add("C13","E1 enum","exploration",
    "Every signed add/sub/neg/mul form (checked, overflowing, wrapping, operators, Wrapping, Checked; Int x Int and Int x Uint, equal and mixed widths, split/widening/checked, squares), sign decomposition and reconstruction (incl. negative zero and |MIN|), resize / From<&Int>, from_i8..i128 over the complete pair products of the signed alphabet (MIN, MIN+1, -1, 0, 1, MAX, +-2^j, +-2^j-1 for every j, L9/L5 patterns) is compared with BigInt arithmetic: wrapping = result mod 2^BITS, overflow reported iff the result leaves [MIN, MAX].",
    ASSUME, "bounded-exhaustive enumeration of operand shapes x forms on the real code against a BigInt reference model", "DESIGN.md §3.C13")

add("C14","E1 enum","exploration",
    "Every signed division flavour (truncating, flooring, normalized; ct and vartime; signed and unsigned divisors; equal and mixed widths; checked, operators, assigning, Wrapping, DivVartime) over complete (n, d) products of the signed alphabet in all four sign combinations plus NEAR(q*d) dividends; each returned (q, r) is compared component-wise with BigInt truncating / flooring division (which implies n = q*d + r, |r| < |d| and the sign convention); quotient none exactly for d = 0 or MIN / -1.",
    ASSUME, "bounded-exhaustive enumeration of operand shapes x forms on the real code against a BigInt reference model", "DESIGN.md §3.C14")

add("C20","E1 enum","exploration",
    "sqrt, sqrt_vartime, wrapping and checked forms and the SquareRoot trait on Uint<1,2,3,4,8,16> and BoxedUint 1..=20 limbs over ALL x < 2^17 (quick) / 2^20 (thorough) in every width plus t^2-1, t^2, t^2+1, t^2+t, t^2+2t for t = 2^j, 2^j+-1, +2, +3 for every j and structured half-width t, 2^BITS-1, neighbours of 2^(BITS-1) and values just above each power of four; result must be the unique s with s^2 <= x < (s+1)^2, checked forms some iff perfect square.",
    ASSUME, "bounded-exhaustive enumeration (complete low range + structured families) on the real code against BigUint::sqrt", "DESIGN.md §3.C20")

add("C16","E5 codec + E1 enum","exploration",
    "Byte/hex/array/word/serde/format routes of Uint<1,2,3,4,6,7,8,16,32>, Int, Limb, BoxedUint, NonZero, Odd, Wrapping, Checked: encoders compared with the positional formula, decoders must invert them; byte-position probes; hex decoders driven with ALL 256 byte values at each of the 32 positions of a U128 string and ALL 65536 two-character prefixes of a U64 string (invalid characters must be rejected, never decoded) and all lengths; BoxedUint::from_be/le_slice for EVERY precision 0..=520 x EVERY length 0..=precision/8+9 x content patterns incl. exactly 2^precision and 2^precision-1 (InputSize / Precision exactly as documented); primitives, concat/split/resize/widen/shorten.",
    ASSUME + " Byte values per hex position and (precision, length) pairs are exhaustive.", "grammar/byte-exhaustive exploration of the real decoders against independent reference recognisers + shape-exhaustive round trips", "DESIGN.md §3.C16")

add("C17","E5 codec + E1 enum","exploration",
    "EVERY radix 2..=36: all strings of length <= 4/5 over a 10-symbol alphabet (digits, max digit, first invalid digit, '_', '+', letters, space, non-ASCII) parsed into U64, U128, unbounded and precision-limited BoxedUint and compared with an independent grammar (value, Empty / InvalidDigit / InputSize / Precision exactly, never a wrapped value, never a panic); formatting of 0, 1, radix^j, radix^j+-1 for every j, 2^BITS-1 and patterns for Uint<1,2,3,4,8,16,40> and BoxedUint up to 140 limbs vs BigUint::to_str_radix, parsed back with '+', leading zeros, upper case and an underscore at every interior position; overflow and precision boundary numerals.",
    ASSUME + " Radices are exhaustive; short strings over the stated alphabet are exhaustive.", "grammar-exhaustive exploration of the real parsers/formatters against an independent reference grammar and BigUint", "DESIGN.md §3.C17")

add("C18","E5 codec","exploration",
    "DER INTEGER (from_der, TryFrom<AnyRef>, TryFrom<UintRef>, to_der, encode_to_slice, encoded_len) for U64, U128, U192, U256, U384, U512, U1024, U8192 and RLP (rlp::decode / rlp::encode) for U64..U256: the complete product of tags x length forms (minimal, overlong, indefinite, truncated, trailing garbage) x every content length 0..=BITS/8+4 x content patterns (leading 00 / 00 00 / 00 80 / ff / 80 / 7f, zeros, probe); an independent recogniser decides whether the input is exactly one canonical encoding of a value that fits; the decoder must return that value iff so and an error otherwise (never a panic, truncation or wrap). Encoders compared with reference encoders at the 7f/80 boundary of every octet length.",
    ASSUME + " The rlp crate's top-level decode ignores bytes after a complete item; such inputs are not generated.", "grammar-exhaustive exploration of the real decoders against an independent canonical-encoding recogniser", "DESIGN.md §3.C18")

add("C12","E1+E4 route closure","exploration",
    "An explicit route table of every public way to obtain NonZero<T>/Odd<T> (T in Limb, Uint<1,2,4>, Int, BoxedUint): new/new_unwrap/to_nz/to_odd/expect, constants, Default, NonZeroU8..U128 conversions, byte/hex decoders in both byte orders, serde Deserialize, abs_sign, as_nz_ref, From<Odd<Uint>>, params modulus(), Random under scripted RNG streams whose first 0..=3 draws are zero/even; every route applied to the alphabet {0,1,2,3,MAX,MAX-1, even/odd patterns}; the produced set is closed under conditional_select (both choices, explicit-state worklist). Invariant on every state: non-zero / odd, decoded in the stated byte order; consumers accept every produced value. States and transitions are reported.",
    ASSUME, "explicit-state closure of the wrapper-producing routes on the real code (worklist over produced values, invariant checked on every state), scripted-environment enumeration for the RNG routes", "DESIGN.md §3.C12")

add("C08","E2 stateright explicit-state search","model_checking",
    "A two-register machine whose transitions are the REAL Montgomery-form operations (42 forms: + - * neg square double halve by value/ref/assign/inherent/trait/multiplier-object, zero/one/new(seed), swap, select, round trip through from_montgomery(to_montgomery()), copy_montgomery_from, Const->Dyn->Boxed conversion) is explored breadth-first with stateright: the COMPLETE reachable state graph (so every finite history) for all odd moduli <= 31 (quick) / <= 255 (thorough) in MontyForm<1..4>, BoxedMontyForm and ConstMontyForm, and depth-bounded (3 / 4-5) graphs for adversarial large moduli up to 32/33 limbs. Invariant in every state: representative < m and retrieve() equals the Z/mZ reference carried in the state. Parameter sets from new / new_vartime / from_const_params / impl_modulus! must be equal and equal to their definitions.",
    ASSUME + " Large moduli: histories beyond the depth bound are not explored.", "explicit-state model checking (stateright BFS) whose next_state calls the real implementation; invariant on every reachable state", "DESIGN.md §3.C08")

add("C09","E1 enum","exploration",
    "pow / pow_bounded_exp / Pow / PowBoundedExp / MultiExponentiate(BoundedExp) (arrays and slices) / lincomb_vartime on MontyForm<1,2,4,8,16>, BoxedMontyForm and ConstMontyForm (5 macro moduli): structured moduli x bases {0,1,2,m-1,generic} x exponents {0, all-ones, 2^j, 2^j+-1 for every j, patterns} of equal and different width x EVERY exponent_bits k in 0..=BITS(exponent) for exponents of at most two limbs (window and limb boundaries otherwise), compared with BigUint::modpow(base, e mod 2^k, m); multi-exp vs the product of single powers; lincomb for EVERY term count 1..=40 x moduli with 0..=100 leading zero bits x 6 term patterns; the three implementations must agree.",
    ASSUME + " exponent_bits is exhaustive for exponents of at most two limbs; term counts are exhaustive in 1..=40.", "bounded-exhaustive enumeration on the real code against BigUint::modpow", "DESIGN.md §3.C09")

add("C10","E1 enum","exploration",
    "inv_odd_mod, inv_mod, InvMod, inv_mod2k(_vartime) for EVERY k in 0..=BITS, precomputed inverters, Int inversions, MontyForm / BoxedMontyForm / ConstMontyForm inv / invert / inverter objects and gcd / gcd_vartime (Uint, Odd<Uint>, Int with all four sign combinations, BoxedUint): EVERY (a, m) with m in 0..=257 and a in 0..2m (the invertibility boundary is enumerated completely there), m = s*2^k for every k with s in {1,3,generic,2^(BITS-k)-1}, products of two primes with chosen shared factors, a >= m, multiples of a factor; Uint<1,2,3,4,6,8,16(,32)>, BoxedUint 1..=33 limbs. some(x) iff gcd(a,m)=1 and x is THE inverse in [0,m); gcd equals the BigUint gcd; ct == vartime.",
    ASSUME + " Small moduli m <= 257 with all a < 2m are exhaustive; k of inv_mod2k is exhaustive.", "bounded-exhaustive enumeration (truly exhaustive on small moduli) on the real code against the extended-gcd reference", "DESIGN.md §3.C10")

add("C19","E4 scripted RNG environment","exploration",
    "The RNG is an environment whose every answer is scripted. Limb::random_mod for moduli < 2^16: EVERY 1-/2-byte answer (256 / 65536 scripts per modulus) - no value >= m and every v < m has exactly the same number of preimages (uniformity decided by counting, not statistics); Uint/BoxedUint random_mod with bits(m) <= 12: all low-bit answers x 3 high patterns, each v < m exactly once; multi-limb moduli: all-equal scripts decide the acceptance boundary exactly, all scripts of length 5 over an 8-word alphabet: range, provenance, fixed == boxed in value and stream position; random_bits for EVERY bit length 0..=BITS+2 on four streams (all-ones must give 2^bl-1, little-endian layout, errors exactly when documented, Uint == Int == BoxedUint) plus a counting argument for bit lengths <= 12; Random for Uint/Int/Wrapping/NonZero/Odd/ConstMontyForm; 2000/20000 ChaCha8 streams for range and width independence.",
    ASSUME + " Uniformity for multi-limb moduli is NOT decided (2^64 answers per word): only range, acceptance boundary and width independence are.", "exhaustive enumeration of scripted RNG answers (environment-answer exploration) with exact preimage counting", "DESIGN.md §3.C19")

add("C11","all engines, two build profiles","exploration",
    "Totality as an assertion over everything the families of C02-C10, C12-C14, C16-C20 explore, in BOTH build profiles (opt-level 3 without debug assertions / opt-level 1 with debug assertions and overflow checks): every form call sits alone inside catch_unwind under a 60 s watchdog; in-domain inputs must not panic, option/result-returning forms must not panic for any argument (zero moduli/divisors, shifts up to u32::MAX, empty/oversized/garbage encodings, the numeral 0), and panicking convenience forms must panic exactly in their documented cases. Quick tier: every 12th index of each family's quick enumeration; thorough: the complete quick enumerations, both profiles.",
    ASSUME + " The expected-panic table is transcribed from the rustdoc of each operation.", "bounded-exhaustive enumeration of the real code in two build profiles with per-call panic capture and a non-termination watchdog", "DESIGN.md §3.C11")
add("C15","differential layer over all families + fixed/boxed + const/runtime grids","exploration",
    "Route equivalence as an assertion over everything the families explore: within every group of forms of one operation (inherent, trait, operators by value/reference/assigning, Wrapping, Checked, ct vs _vartime, precomputed vs one-shot; ~870 form pairs, listed with counts in the evidence) every form must be bit-identical to the group's first form (value, flags, none, panic alike); plus Uint<N> vs BoxedUint(64N) for N in {1,2,3,4,8,16,32,64} on ~55 operations incl. the documented result precision, and ~50 const fn operations evaluated by the compiler in const items vs the same expressions at run time behind black_box (5x5 grids, widths 1 and 4). Quick tier: every 6th index of each family's quick enumeration; thorough: complete.",
    ASSUME, "bounded-exhaustive differential enumeration between routes of the real code (no reference model needed)", "DESIGN.md §3.C15")

add("C01","E3 trace equivalence over enumerated secrets (SanitizerCoverage build + valgrind lackey)","exploration",
    "A table of ~290 monomorphic #[inline(never)] wrappers around the non-vartime public operations of Limb, Uint (1,2,4 limbs quick; +8,16 thorough; 32/64 for the Karatsuba multiplications), Int, BoxedUint, NonZero/Odd constructors, MontyForm / ConstMontyForm / BoxedMontyForm (modulus public) plus the documented-vartime operations with their named operand public. For every row and every assignment of its public parameters (shift amounts, bit bounds, divisors, moduli) ALL secret tuples of the row's alphabet (FULL(n<=2,L5), RUNS(n,L3,2), powers of two, bit lengths multiple of 64, secret shift amounts / bit indices incl. 0, limb multiples, BITS-1 and overflow) are executed and the complete leakage traces compared in two layers: (A) LLVM SanitizerCoverage callbacks at opt-level 3 - every edge guard, load/store address, gep index and udiv/sdiv operand; (B) the uninstrumented optimized binary under valgrind lackey - every instruction address and data address. Every node at which a new trace leaves the trie of traces seen so far is symbolised and attributed to a site function; known divergences are listed per (row, layer, site).",
    "Trace model = control flow + data addresses + division operands; micro-architectural timing is outside it. Verdict is about this toolchain's optimized build of these monomorphisations. Secret values outside the alphabets are not explored. The alphabets are independent of VERIF_SEED so that the set of divergence sites is reproducible. A new leak at a site function that is already a known finding for the same row and layer is masked.",
    "exhaustive enumeration of secret assignments per public-parameter group with full leakage-trace comparison of the real optimized code (dynamic trace equivalence; no sampling, no solver)", "DESIGN.md §3.C01")
C["C01"]["quick_cmd"] = "./check C01 quick"

NOT_YET = {}
ALL = [f"C{i:02d}" for i in range(1,21)]
import os, sys
not_app = [dict(property_id=p, reason="check not built yet in this round (planned, see DESIGN.md §8); nothing is claimed for it")
           for p in ALL if p not in C]
m = dict(version=1,
    setup_cmd="cd /verif/harness && CARGO_NET_OFFLINE=true CARGO_TARGET_DIR=/verif/target/rel cargo build --offline --release --bins && CARGO_NET_OFFLINE=true CARGO_TARGET_DIR=/verif/target/dbg cargo build --offline --profile dbg --bins && /verif/harness_ct/build.sh san && /verif/harness_ct/build.sh rel",
    hooks=dict(guard="rustcrypto_crypto_bigint_verif", enable="none needed: all checks drive the public API of /repo as a path dependency (no hooks in /repo)",
               baseline_off_cmd="cd /repo && cargo test --workspace --no-fail-fast --offline", source_commits=[], add_only=True),
    engines=[dict(name="vct", path="/verif/harness_ct", serves_properties=["C01"], kind_free_text="constant-time trace harness: operation table, SanitizerCoverage callbacks (layer A), marker driver + lktrace consumer for valgrind lackey (layer B), orchestrated by /verif/check_ct"),
             dict(name="vharness", path="/verif/harness", serves_properties=sorted(k for k in C if k != "C01"), kind_free_text="Rust harness crate path-depending on /repo: shape-exhaustive enumerators (E1), stateright explicit-state search (E2), scripted RNG (E4), grammar-exhaustive codec explorer (E5)")],
    checks=[C[k] for k in sorted(C)],
    notes="Model-checking family: every check enumerates a stated finite space of behaviours of the real code completely (no sampling) and compares each with a reference model. See DESIGN.md.",
    not_applicable=not_app)
json.dump(m, open("/verif/MANIFEST.json","w"), indent=1)
print("checks:", sorted(C), "not claimed:", [x['property_id'] for x in not_app])
