#!/bin/bash
# seedconfirm_batch.sh <ids...> : confirm round-2 seeds (patch1/patch2 of each id) three at a time
confirm() { /verif/seedconfirm5.sh "$1" "$2" 2>&1 | tail -1; }
export -f confirm
for id in "$@"; do for k in 1 2; do echo "$id $k"; done; done | xargs -P 3 -L 1 bash -c 'confirm $0 $1'
