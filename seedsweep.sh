#!/bin/bash
# seedsweep.sh [ids...] : run every stored seeded change against the quick check of its own property; one line per change
# in /verif/seeded/RESULTS.tsv (id, property, tier, verdict).  Must not run concurrently with any other check (edits /repo).
cd /verif/seeded || exit 2
ids=("$@"); [ ${#ids[@]} -eq 0 ] && ids=($(ls -d C*-* | sort -V))
for d in "${ids[@]}"; do
  [ -f "$d/patch.diff" ] || continue
  prop=${d%%-*}
  out=$(/verif/seedtest.sh /verif/seeded/$d/patch.diff $prop quick 2>&1 | tail -1)
  v=$(echo "$out" | awk '{print $1}')
  grep -v "^$d	" RESULTS.tsv 2>/dev/null > RESULTS.tmp; mv RESULTS.tmp RESULTS.tsv
  printf "%s\t%s\tquick\t%s\n" "$d" "$prop" "$v" >> RESULTS.tsv
  echo "$d $v"
done
